// Command check is the orchestrator: it rebuilds the property runner from
// /repo's current working tree (hooks on), runs the case list of one property
// in parallel child processes under a watchdog, merges what the monitors
// observed, applies the known-findings file, writes the evidence file and
// prints the verdict lines.
//
// It deliberately does not import gkvlite (nor any package that does), so the
// orchestrator binary built by setup_cmd never goes stale when /repo changes.
package main

import (
	"bufio"
	"bytes"
	"context"
	"crypto/sha1"
	"encoding/json"
	"flag"
	"fmt"
	"os"
	"os/exec"
	"path/filepath"
	"regexp"
	"sort"
	"strconv"
	"strings"
	"sync"
	"syscall"
	"time"
)

type Meta struct {
	ID          string   `json:"id"`
	Level       string   `json:"level"`
	Race        bool     `json:"race"`
	Rule        string   `json:"rule"`
	Assumptions []string `json:"assumptions"`
	NumCases    int      `json:"num_cases"`
	Exhaustive  bool     `json:"exhaustive"`
	Serial      bool     `json:"serial"`
	RaceFrom    int      `json:"race_from"`
}

type Viol struct {
	Sig    string   `json:"signature"`
	Detail string   `json:"detail"`
	Step   int      `json:"step"`
	Op     string   `json:"op"`
	Trace  []string `json:"trace,omitempty"`
	Index  int      `json:"index"`
	Seed   uint64   `json:"case_seed"`
}

type ChildOut struct {
	Evaluations  int              `json:"evaluations"`
	NonTrivial   []uint64         `json:"nontrivial_hashes"`
	Stats        map[string]int64 `json:"stats"`
	Samples      []interface{}    `json:"samples"`
	Violations   []Viol           `json:"violations"`
	Inconclusive []string         `json:"inconclusive"`
	WallS        float64          `json:"wall_s"`
	Done         bool             `json:"done"`
}

type Known struct {
	Property  string `json:"property"`
	Signature string `json:"signature"`
	Status    string `json:"status"` // known | fixed
	Commit    string `json:"commit,omitempty"`
	What      string `json:"what"`
}

var verifDir = "/verif"

func main() {
	pid := flag.String("p", "", "property id (C01..C19)")
	tier := flag.String("tier", os.Getenv("VERIF_TIER"), "quick|thorough")
	replay := flag.String("replay", "", "replay file to re-execute")
	jobs := flag.Int("jobs", 16, "parallel children")
	keep := flag.Bool("keep", false, "keep the work directory")
	flag.Parse()
	if *tier == "" {
		*tier = "quick"
	}
	if wd, err := os.Getwd(); err == nil {
		if _, err := os.Stat(filepath.Join(wd, "cmd", "prop")); err == nil {
			verifDir = wd
		}
	}
	seed := uint64(1)
	if s := os.Getenv("VERIF_SEED"); s != "" {
		if v, err := strconv.ParseUint(s, 10, 64); err == nil {
			seed = v
		} else if v, err := strconv.ParseInt(s, 10, 64); err == nil {
			seed = uint64(v)
		}
	}
	if *replay != "" {
		os.Exit(doReplay(*replay))
	}
	if *pid == "" {
		fmt.Fprintln(os.Stderr, "usage: check -p <property> [-tier quick|thorough]")
		os.Exit(2)
	}
	os.Exit(run(*pid, *tier, seed, *jobs, *keep))
}

func goEnv() []string {
	env := os.Environ()
	env = append(env, "GOFLAGS=-mod=mod", "GOPROXY=off", "GOSUMDB=off", "GOTOOLCHAIN=local", "CGO_ENABLED=1")
	return env
}

// build compiles the child from /repo's current working tree.
func build(work string, race bool) (string, error) {
	bin := filepath.Join(work, "prop")
	if race {
		bin += "-race"
	}
	args := []string{"build", "-tags", "verif"}
	if race {
		args = append(args, "-race")
	}
	if repo := os.Getenv("VERIF_REPO"); repo != "" {
		// point the same machinery at a scratch copy (used for mutants only)
		gm, err := os.ReadFile(filepath.Join(verifDir, "go.mod"))
		if err != nil {
			return "", err
		}
		gm = bytes.Replace(gm, []byte("=> /repo"), []byte("=> "+repo), 1)
		mf := filepath.Join(work, "go.mod")
		if err := os.WriteFile(mf, gm, 0644); err != nil {
			return "", err
		}
		gs, _ := os.ReadFile(filepath.Join(verifDir, "go.sum"))
		os.WriteFile(filepath.Join(work, "go.sum"), gs, 0644)
		args = append(args, "-modfile="+mf)
	}
	args = append(args, "-o", bin, "./cmd/prop")
	cmd := exec.Command("go", args...)
	cmd.Dir = verifDir
	cmd.Env = goEnv()
	out, err := cmd.CombinedOutput()
	if err != nil {
		return "", fmt.Errorf("go %s: %v\n%s", strings.Join(args, " "), err, out)
	}
	return bin, nil
}

// buildView compiles /repo's tools/view next to the child binary.
func buildView(work string) {
	args := []string{"build"}
	if _, err := os.Stat(filepath.Join(work, "go.mod")); err == nil && os.Getenv("VERIF_REPO") != "" {
		args = append(args, "-modfile="+filepath.Join(work, "go.mod"))
	}
	args = append(args, "-o", filepath.Join(work, "view"), "github.com/cbehopkins/gkvlite/tools/view")
	cmd := exec.Command("go", args...)
	cmd.Dir = verifDir
	cmd.Env = goEnv()
	cmd.Run()
}

func loadKnown() []Known {
	var res []Known
	f, err := os.Open(filepath.Join(verifDir, "known_findings.jsonl"))
	if err != nil {
		return nil
	}
	defer f.Close()
	sc := bufio.NewScanner(f)
	sc.Buffer(make([]byte, 1<<20), 1<<20)
	for sc.Scan() {
		line := strings.TrimSpace(sc.Text())
		if line == "" || strings.HasPrefix(line, "#") {
			continue
		}
		var k Known
		if json.Unmarshal([]byte(line), &k) == nil {
			res = append(res, k)
		}
	}
	return res
}

type batchResult struct {
	out     ChildOut
	extra   []Viol   // crashes / hangs found by the orchestrator
	inconc  []string // orchestrator-level inconclusive reasons
	raceLog []string
}

func run(id, tier string, seed uint64, jobs int, keep bool) int {
	start := time.Now()
	work := filepath.Join(verifDir, ".work", fmt.Sprintf("%s-%d", id, os.Getpid()))
	os.MkdirAll(work, 0755)
	if !keep {
		defer os.RemoveAll(work)
	}
	inconclusive := func(reason string) int {
		fmt.Printf("INCONCLUSIVE property=%s reason=%s\n", id, reason)
		return 3
	}
	bin, err := build(work, false)
	if err != nil {
		fmt.Fprintln(os.Stderr, err)
		return inconclusive("build-failed")
	}
	if id == "C09" && tier == "thorough" {
		buildView(work) // tools/view for the syscall-level cross-check (best effort)
	}
	// metadata from the child itself
	mo, err := exec.Command(bin, "-p", id, "-tier", tier, "-meta").Output()
	if err != nil {
		return inconclusive("meta-failed: " + err.Error())
	}
	var meta Meta
	if err := json.Unmarshal(mo, &meta); err != nil {
		return inconclusive("meta-parse")
	}
	raceBin := ""
	if meta.Race {
		if raceBin, err = build(work, true); err != nil {
			fmt.Fprintln(os.Stderr, err)
			return inconclusive("race-build-failed")
		}
	}
	nb := jobs
	if meta.NumCases < nb {
		nb = meta.NumCases
	}
	if meta.Serial || nb < 1 {
		nb = 1
	}
	limit := 15 * time.Minute
	if tier == "thorough" {
		limit = 90 * time.Minute
	}
	// With a race build the cases with index >= race_from run in the race
	// instrumented binary, the others in the plain one.
	type job struct {
		bin      string
		b, nb    int
		from, to int
		race     bool
	}
	var jobsList []job
	if meta.Race {
		nr := nb / 3
		if nr < 1 {
			nr = 1
		}
		np := nb - nr
		if np < 1 {
			np = 1
		}
		if meta.RaceFrom > 0 {
			for b := 0; b < np; b++ {
				jobsList = append(jobsList, job{bin, b, np, 0, meta.RaceFrom, false})
			}
		}
		if meta.RaceFrom < meta.NumCases {
			for b := 0; b < nr; b++ {
				jobsList = append(jobsList, job{raceBin, b, nr, meta.RaceFrom, -1, true})
			}
		}
	} else {
		for b := 0; b < nb; b++ {
			jobsList = append(jobsList, job{bin, b, nb, 0, -1, false})
		}
	}
	results := make([]batchResult, len(jobsList))
	var wg sync.WaitGroup
	for i, j := range jobsList {
		wg.Add(1)
		go func(i int, j job) {
			defer wg.Done()
			results[i] = runBatch(j.bin, work, id, tier, seed, i, j.b, j.nb, j.from, j.to, limit, j.race)
		}(i, j)
	}
	nb = len(jobsList)
	wg.Wait()

	// merge
	stats := map[string]int64{}
	hashes := map[uint64]bool{}
	var samples []interface{}
	var viols []Viol
	var inconc []string
	evals := 0
	raceReports := []string{}
	for _, r := range results {
		evals += r.out.Evaluations
		for k, v := range r.out.Stats {
			stats[k] += v
		}
		for _, h := range r.out.NonTrivial {
			hashes[h] = true
		}
		if len(samples) < 3 {
			samples = append(samples, r.out.Samples...)
		}
		viols = append(viols, r.out.Violations...)
		viols = append(viols, r.extra...)
		inconc = append(inconc, r.out.Inconclusive...)
		inconc = append(inconc, r.inconc...)
		raceReports = append(raceReports, r.raceLog...)
	}
	if len(samples) > 3 {
		samples = samples[:3]
	}
	// race reports are classified by the child binary's own filter
	var raceSummary map[string]interface{}
	if meta.Race {
		rs, rviol := classifyRaces(raceBin, work, id)
		raceSummary = rs
		viols = append(viols, rviol...)
	}

	// coverage floor
	sj, _ := json.Marshal(stats)
	sf := filepath.Join(work, "merged-stats.json")
	os.WriteFile(sf, sj, 0644)
	floorOut, _ := exec.Command(bin, "-p", id, "-tier", tier, "-floor", sf).Output()
	floor := strings.TrimSpace(string(floorOut))

	// known findings
	known := loadKnown()
	type group struct {
		first Viol
		count int
	}
	groups := map[string]*group{}
	var order []string
	for _, v := range viols {
		g := groups[v.Sig]
		if g == nil {
			g = &group{first: v}
			groups[v.Sig] = g
			order = append(order, v.Sig)
		}
		g.count++
	}
	sort.Strings(order)
	bySig := map[string]int{}
	var knownSeen []string
	newViol := 0
	os.MkdirAll(filepath.Join(verifDir, "replays"), 0755)
	for _, sig := range order {
		g := groups[sig]
		bySig[sig] = g.count
		isKnown := false
		for _, k := range known {
			if k.Property == id && k.Status == "known" && k.Signature == sig {
				fmt.Printf("KNOWN-FINDING: property=%s %s [signature %s, %d occurrence(s)]\n", id, k.What, sig, g.count)
				knownSeen = append(knownSeen, sig)
				isKnown = true
				break
			}
		}
		if isKnown {
			continue
		}
		newViol++
		h := sha1.Sum([]byte(sig))
		path := filepath.Join(verifDir, "replays", fmt.Sprintf("%s-%x.json", id, h[:6]))
		rep := map[string]interface{}{
			"property": id, "tier": tier, "seed": seed, "index": g.first.Index, "case_seed": g.first.Seed,
			"signature": sig, "detail": g.first.Detail, "step": g.first.Step, "op": g.first.Op, "trace": g.first.Trace,
			"occurrences": g.count,
			"replay_cmd":  fmt.Sprintf("./bin/check -replay %s", path),
		}
		rb, _ := json.MarshalIndent(rep, "", " ")
		os.WriteFile(path, rb, 0644)
		fmt.Printf("VIOLATION property=%s replay=%s\n", id, path)
		fmt.Printf("  signature: %s\n  %s\n", sig, firstLines(g.first.Detail, 6))
	}

	wall := time.Since(start).Seconds()
	evalsReported, distinctReported := evals, len(hashes)
	if x := stats["evaluations.extra"]; x > 0 { // cases that enumerate sub-executions (fault points, crash images, schedules)
		evalsReported = int(x)
		distinctReported = int(stats["nontrivial.extra"])
	}
	cov := map[string]interface{}{
		"evaluations":         evalsReported,
		"distinct_nontrivial": distinctReported,
		"top_level_cases":     evals,
		"rule":                meta.Rule,
		"samples":             samples,
		"exhaustive":          meta.Exhaustive,
		"observed":            stats,
		"children":            nb,
		"case_list_length":    meta.NumCases,
	}
	if len(bySig) > 0 {
		cov["violations_by_signature"] = bySig
	}
	if len(knownSeen) > 0 {
		cov["known_findings_seen"] = knownSeen
	}
	if len(inconc) > 0 {
		if len(inconc) > 20 {
			inconc = inconc[:20]
		}
		cov["inconclusive"] = inconc
	}
	if raceSummary != nil {
		cov["race_detector"] = raceSummary
	}
	if floor != "" {
		cov["coverage_floor_unmet"] = floor
	}
	if id == "C14" {
		// the decoder must share no code with gkvlite: record (and enforce) its import closure
		lc := exec.Command("go", "list", "-deps", "./internal/decoder")
		lc.Dir = verifDir
		lc.Env = goEnv()
		if out, err := lc.Output(); err == nil {
			deps := strings.Fields(string(out))
			cov["decoder_import_closure"] = deps
			for _, d := range deps {
				if strings.Contains(d, "gkvlite") {
					inconc = append(inconc, "the independent decoder imports "+d)
					cov["inconclusive"] = inconc
					floor = "decoder is not independent of gkvlite"
				}
			}
		}
	}
	if len(samples) == 0 {
		cov["samples"] = []interface{}{"(no sample recorded)"}
	}
	ev := map[string]interface{}{
		"property_id": id, "tier": tier, "seed": seed, "level": meta.Level,
		"coverage": cov, "assumptions": meta.Assumptions, "wall_s": wall, "violations": newViol,
	}
	eb, _ := json.MarshalIndent(ev, "", " ")
	evDir := filepath.Join(verifDir, "evidence")
	if d := os.Getenv("VERIF_EVIDENCE_DIR"); d != "" {
		evDir = d // runs against scratch copies (mutants) must not overwrite the real evidence
	}
	os.MkdirAll(evDir, 0755)
	os.WriteFile(filepath.Join(evDir, id+".json"), eb, 0644)

	fmt.Printf("property=%s tier=%s seed=%d cases=%d evaluations=%d distinct_nontrivial=%d violations=%d known=%d wall=%.1fs\n",
		id, tier, seed, evals, evalsReported, distinctReported, newViol, len(knownSeen), wall)
	if newViol > 0 {
		return 1
	}
	if floor != "" {
		return inconclusive("coverage-floor: " + floor)
	}
	if evals < meta.NumCases && len(viols) == 0 {
		return inconclusive(fmt.Sprintf("only %d of %d cases ran", evals, meta.NumCases))
	}
	if len(inconc) > 0 && len(inconc)*100 > evals {
		return inconclusive("too-many-inconclusive-cases")
	}
	if distinctReported < 2 {
		return inconclusive("fewer than two distinct non-trivial cases")
	}
	return 0
}

func firstLines(s string, n int) string {
	l := strings.Split(s, "\n")
	if len(l) > n {
		l = l[:n]
	}
	return strings.Join(l, "\n  ")
}

var startRe = regexp.MustCompile(`^START (\d+)$`)
var endRe = regexp.MustCompile(`^END (\d+)$`)

// lastOpenCase returns the index of the last case that was started but not
// finished according to the child's log, or -1.
func lastOpenCase(logPath string) int {
	f, err := os.Open(logPath)
	if err != nil {
		return -1
	}
	defer f.Close()
	open := -1
	sc := bufio.NewScanner(f)
	sc.Buffer(make([]byte, 1<<20), 16<<20)
	for sc.Scan() {
		if m := startRe.FindStringSubmatch(sc.Text()); m != nil {
			open, _ = strconv.Atoi(m[1])
		} else if m := endRe.FindStringSubmatch(sc.Text()); m != nil {
			if v, _ := strconv.Atoi(m[1]); v == open {
				open = -1
			}
		}
	}
	return open
}

func tailFile(path string, n int) string {
	b, err := os.ReadFile(path)
	if err != nil {
		return ""
	}
	lines := strings.Split(string(b), "\n")
	var keep []string
	for _, l := range lines {
		if startRe.MatchString(l) || endRe.MatchString(l) {
			continue
		}
		keep = append(keep, l)
	}
	if len(keep) > n {
		keep = keep[:n] // the head of a Go crash report is the informative part
	}
	return strings.Join(keep, "\n")
}

func crashClass(report string) string {
	for _, l := range strings.Split(report, "\n") {
		l = strings.TrimSpace(l)
		if strings.HasPrefix(l, "fatal error:") || strings.HasPrefix(l, "panic:") {
			l = regexp.MustCompile(`0x[0-9a-f]+|\d+`).ReplaceAllString(l, "N")
			if len(l) > 70 {
				l = l[:70]
			}
			return strings.Map(func(r rune) rune {
				if r >= 'a' && r <= 'z' || r >= 'A' && r <= 'Z' {
					return r
				}
				return '-'
			}, l)
		}
	}
	return "unknown"
}

// runChild runs one child process with a wall-clock limit.  Returns
// (exited normally, timed out).
func runChild(bin string, args []string, logPath string, limit time.Duration, env []string) (ok bool, timedOut bool) {
	lf, err := os.Create(logPath)
	if err != nil {
		return false, false
	}
	defer lf.Close()
	ctx, cancel := context.WithTimeout(context.Background(), limit)
	defer cancel()
	cmd := exec.Command(bin, args...)
	cmd.Stdout = lf
	cmd.Stderr = lf
	cmd.Env = env
	cmd.SysProcAttr = &syscall.SysProcAttr{Setpgid: true}
	if err := cmd.Start(); err != nil {
		return false, false
	}
	done := make(chan error, 1)
	go func() { done <- cmd.Wait() }()
	select {
	case err := <-done:
		return err == nil, false
	case <-ctx.Done():
		cmd.Process.Signal(syscall.SIGQUIT) // goroutine dump goes to the log file
		select {
		case <-done:
		case <-time.After(10 * time.Second):
			cmd.Process.Kill()
			<-done
		}
		return false, true
	}
}

func runBatch(bin, work, id, tier string, seed uint64, slot, b, nb, fromIdx, toIdx int, limit time.Duration, race bool) (res batchResult) {
	res.out.Stats = map[string]int64{}
	env := append(os.Environ(), "GOTRACEBACK=all")
	if race {
		env = append(env, fmt.Sprintf("GORACE=halt_on_error=0 log_path=%s", filepath.Join(work, "race")))
		if id == "C18" {
			// real parallelism varies per child process: time slicing only, two threads, all cores
			switch b % 3 {
			case 0:
				env = append(env, "GOMAXPROCS=1")
			case 1:
				env = append(env, "GOMAXPROCS=2")
			}
		}
	}
	from := fromIdx
	for attempt := 0; attempt < 6; attempt++ {
		outPath := filepath.Join(work, fmt.Sprintf("b%d-%d.json", slot, attempt))
		logPath := filepath.Join(work, fmt.Sprintf("b%d-%d.log", slot, attempt))
		args := []string{"-p", id, "-tier", tier, "-seed", strconv.FormatUint(seed, 10),
			"-batch", strconv.Itoa(b), "-nbatch", strconv.Itoa(nb), "-from", strconv.Itoa(from), "-to", strconv.Itoa(toIdx), "-out", outPath}
		ok, timedOut := runChild(bin, args, logPath, limit, env)
		var o ChildOut
		if data, err := os.ReadFile(outPath); err == nil {
			json.Unmarshal(data, &o)
		}
		// merge partial results
		res.out.Evaluations += o.Evaluations
		res.out.NonTrivial = append(res.out.NonTrivial, o.NonTrivial...)
		for k, v := range o.Stats {
			res.out.Stats[k] += v
		}
		res.out.Samples = append(res.out.Samples, o.Samples...)
		res.out.Violations = append(res.out.Violations, o.Violations...)
		res.out.Inconclusive = append(res.out.Inconclusive, o.Inconclusive...)
		if ok && o.Done {
			return
		}
		open := lastOpenCase(logPath)
		if open < 0 {
			res.inconc = append(res.inconc, fmt.Sprintf("batch %d ended abnormally outside any case (timeout=%v): %s", b, timedOut, firstLines(tailFile(logPath, 8), 8)))
			return
		}
		report := tailFile(logPath, 60)
		if timedOut {
			// Re-run that single case alone with a generous limit: if it
			// completes, the firing was load; otherwise it is decided as a hang.
			soloLog := filepath.Join(work, fmt.Sprintf("b%d-solo-%d.log", slot, open))
			soloOut := filepath.Join(work, fmt.Sprintf("b%d-solo-%d.json", slot, open))
			sok, _ := runChild(bin, []string{"-p", id, "-tier", tier, "-seed", strconv.FormatUint(seed, 10), "-only", strconv.Itoa(open), "-out", soloOut}, soloLog, 5*time.Minute, env)
			if sok {
				var so ChildOut
				if data, err := os.ReadFile(soloOut); err == nil {
					json.Unmarshal(data, &so)
				}
				res.out.Evaluations += so.Evaluations
				res.out.Violations = append(res.out.Violations, so.Violations...)
				res.out.NonTrivial = append(res.out.NonTrivial, so.NonTrivial...)
			} else {
				dump := tailFile(soloLog, 80)
				sig := "hang/watchdog-decided"
				if allBlocked(dump) {
					sig = "hang/all-goroutines-blocked"
				}
				res.extra = append(res.extra, Viol{Sig: sig, Index: open,
					Detail: fmt.Sprintf("case %d did not finish within the batch limit nor alone within 5 minutes (operations take micro- to milliseconds):\n%s", open, dump)})
			}
		} else {
			res.extra = append(res.extra, Viol{Sig: "crash/" + crashClass(report), Index: open,
				Detail: fmt.Sprintf("the child process died while executing case %d:\n%s", open, report)})
		}
		from = open + 1
	}
	res.inconc = append(res.inconc, fmt.Sprintf("batch %d: too many abnormal terminations", b))
	return
}

// allBlocked reports whether a SIGQUIT goroutine dump shows no runnable or
// running goroutine outside the runtime's own.
func allBlocked(dump string) bool {
	if !strings.Contains(dump, "goroutine ") {
		return false
	}
	for _, l := range strings.Split(dump, "\n") {
		if strings.HasPrefix(l, "goroutine ") && (strings.Contains(l, "[running]") || strings.Contains(l, "[runnable]")) {
			return false
		}
	}
	return true
}

// classifyRaces hands the race logs to the child's filter.
func classifyRaces(bin, work, id string) (map[string]interface{}, []Viol) {
	logs, _ := filepath.Glob(filepath.Join(work, "race.*"))
	if len(logs) == 0 {
		return map[string]interface{}{"reports": 0}, nil
	}
	args := append([]string{"-p", id, "-racefilter"}, logs...)
	out, err := exec.Command(bin, args...).Output()
	if err != nil {
		return map[string]interface{}{"error": err.Error()}, nil
	}
	var r struct {
		Summary    map[string]interface{} `json:"summary"`
		Violations []Viol                 `json:"violations"`
	}
	json.Unmarshal(out, &r)
	return r.Summary, r.Violations
}

func doReplay(path string) int {
	data, err := os.ReadFile(path)
	if err != nil {
		fmt.Fprintln(os.Stderr, err)
		return 2
	}
	var rep struct {
		Property string `json:"property"`
		Tier     string `json:"tier"`
		Seed     uint64 `json:"seed"`
		Index    int    `json:"index"`
	}
	if err := json.Unmarshal(data, &rep); err != nil {
		fmt.Fprintln(os.Stderr, err)
		return 2
	}
	work := filepath.Join(verifDir, ".work", fmt.Sprintf("replay-%d", os.Getpid()))
	os.MkdirAll(work, 0755)
	defer os.RemoveAll(work)
	bin, err := build(work, false)
	if err != nil {
		fmt.Fprintln(os.Stderr, err)
		return 3
	}
	cmd := exec.Command(bin, "-p", rep.Property, "-tier", rep.Tier, "-seed", strconv.FormatUint(rep.Seed, 10), "-only", strconv.Itoa(rep.Index))
	cmd.Stdout = os.Stdout
	cmd.Stderr = os.Stderr
	if err := cmd.Run(); err != nil {
		return 1
	}
	return 0
}
