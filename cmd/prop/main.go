// Command prop is the child process of the orchestrator: it runs one batch
// of the value-determined case list of one property and writes a JSON result.
package main

import (
	"encoding/json"
	"flag"
	"fmt"
	"os"
	"time"

	"verif/internal/driver"
	"verif/internal/props"
)

type ViolOut struct {
	props.Viol
	Index int    `json:"index"`
	Seed  uint64 `json:"case_seed"`
}

type Out struct {
	Property     string           `json:"property"`
	Tier         string           `json:"tier"`
	Seed         uint64           `json:"seed"`
	Batch        int              `json:"batch"`
	Evaluations  int              `json:"evaluations"`
	NonTrivial   []uint64         `json:"nontrivial_hashes"`
	Stats        map[string]int64 `json:"stats"`
	Samples      []interface{}    `json:"samples"`
	Violations   []ViolOut        `json:"violations"`
	Inconclusive []string         `json:"inconclusive"`
	WallS        float64          `json:"wall_s"`
	Done         bool             `json:"done"`
}

func main() {
	p := flag.String("p", "", "property id")
	tier := flag.String("tier", "quick", "quick|thorough")
	seed := flag.Uint64("seed", 1, "VERIF_SEED")
	batch := flag.Int("batch", 0, "batch index")
	nbatch := flag.Int("nbatch", 1, "number of batches")
	only := flag.Int("only", -1, "run only this case index")
	out := flag.String("out", "", "result file")
	maxViol := flag.Int("maxviol", 25, "stop after this many violations")
	from := flag.Int("from", 0, "skip case indexes below this")
	to := flag.Int("to", -1, "skip case indexes at or above this (-1 = none)")
	meta := flag.Bool("meta", false, "print the property's metadata as JSON")
	floor := flag.String("floor", "", "evaluate the coverage floor on a merged statistics file")
	raceFilter := flag.Bool("racefilter", false, "classify the race detector logs given as arguments")
	straceHelper := flag.String("strace-helper", "", "run the fixed C09 history on a real file at this path and print the StoreFile-level write log")
	flag.Parse()
	if *straceHelper != "" {
		os.Exit(props.StraceHelper(*straceHelper))
	}
	pr := props.Registry[*p]
	if pr == nil {
		fmt.Fprintf(os.Stderr, "unknown property %q\n", *p)
		os.Exit(2)
	}
	if *meta {
		m := map[string]interface{}{"id": pr.ID, "level": pr.Level, "race": pr.Race, "rule": pr.Rule,
			"assumptions": pr.Assumptions, "num_cases": pr.NumCases(*tier), "serial": pr.Serial,
			"exhaustive": pr.Exhaustive != nil && pr.Exhaustive(*tier), "race_from": func() int {
				if pr.RaceFrom != nil {
					return pr.RaceFrom(*tier)
				}
				return 0
			}()}
		b, _ := json.Marshal(m)
		fmt.Println(string(b))
		return
	}
	if *floor != "" {
		st := map[string]int64{}
		if b, err := os.ReadFile(*floor); err == nil {
			json.Unmarshal(b, &st)
		}
		if pr.Floor != nil {
			fmt.Println(pr.Floor(*tier, st))
		}
		return
	}
	if *raceFilter {
		fmt.Println(props.RaceFilterJSON(flag.Args()))
		return
	}
	ctx := &props.Ctx{Tier: *tier, Seed: *seed, Stats: map[string]int64{}}
	o := Out{Property: *p, Tier: *tier, Seed: *seed, Batch: *batch, Stats: ctx.Stats}
	start := time.Now()
	n := pr.NumCases(*tier)
	seen := map[uint64]bool{}
	write := func() {
		o.WallS = time.Since(start).Seconds()
		if *out != "" {
			b, _ := json.Marshal(o)
			tmp := *out + ".tmp"
			if err := os.WriteFile(tmp, b, 0644); err == nil {
				os.Rename(tmp, *out)
			}
		}
	}
	for idx := 0; idx < n; idx++ {
		if *only >= 0 {
			if idx != *only {
				continue
			}
		} else if idx%*nbatch != *batch || idx < *from || (*to >= 0 && idx >= *to) {
			continue
		}
		// the case descriptor reaches the log before the case runs
		fmt.Fprintf(os.Stderr, "START %d\n", idx)
		res := pr.Run(ctx, idx)
		fmt.Fprintf(os.Stderr, "END %d\n", idx)
		o.Evaluations++
		if res.NonTrivial && !seen[res.Hash] {
			seen[res.Hash] = true
			o.NonTrivial = append(o.NonTrivial, res.Hash)
		}
		if res.Inconclusive != "" && len(o.Inconclusive) < 50 {
			o.Inconclusive = append(o.Inconclusive, fmt.Sprintf("case %d: %s", idx, res.Inconclusive))
			ctx.Stats["inconclusive-cases"]++
		}
		if len(o.Samples) < 2 && res.Sample != nil && (res.NonTrivial || idx == n-1) {
			o.Samples = append(o.Samples, res.Sample)
		}
		if res.Viol != nil {
			o.Violations = append(o.Violations, ViolOut{Viol: *res.Viol, Index: idx, Seed: props.CaseSeed(*seed, *p, idx)})
			if *only >= 0 {
				fmt.Printf("case %d violated: %s\n%s\n", idx, res.Viol.Sig, res.Viol.Detail)
				for _, t := range res.Viol.Trace {
					fmt.Println("   ", t)
				}
			}
			if len(o.Violations) >= *maxViol || res.Fatal || driver.ProcessTainted.Load() {
				break
			}
		} else if *only >= 0 {
			fmt.Printf("case %d held (nontrivial=%v)\n", idx, res.NonTrivial)
		}
		if o.Evaluations%200 == 0 {
			write()
		}
	}
	o.Done = true
	write()
	if *only >= 0 && len(o.Violations) > 0 {
		os.Exit(1)
	}
}
