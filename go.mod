module verif

go 1.21

require (
	github.com/anishathalye/porcupine v1.3.0
	github.com/cbehopkins/gkvlite v0.0.0
)

replace github.com/cbehopkins/gkvlite => /repo
