// Package conc runs one-mutator / one-flusher / N-reader programs against a
// real store, records the history at the client boundary with one logical
// clock, and checks it offline: version-interval checker, porcupine per key,
// flush-order checker, lost updates, panics.
package conc

import (
	"bytes"
	"fmt"
	"runtime/debug"
	"sort"
	"strings"
	"sync"
	"sync/atomic"
	"time"

	"github.com/anishathalye/porcupine"
	"github.com/cbehopkins/gkvlite"

	"verif/internal/decoder"
	"verif/internal/model"
	"verif/internal/sched"
	"verif/internal/vfile"
)

// OpKind of a program step.
type OpKind int

const (
	MSet OpKind = iota
	MDelete
	MEvict
	FFlush
	RGet
	RMin
	RMax
	RTotals
	RVisit
	RSnapshot
)

var opNames = map[OpKind]string{MSet: "Set", MDelete: "Delete", MEvict: "Evict", FFlush: "Flush", RGet: "Get", RMin: "Min", RMax: "Max", RTotals: "Totals", RVisit: "Visit", RSnapshot: "Snapshot"}

// Step is one operation of a worker program.
type Step struct {
	K       OpKind
	Coll    string
	Key     []byte
	Prio    int32
	Desc    bool
	WithVal bool
	Stop    int  // visits: stop after Stop+1 deliveries (-1 never)
	Big     int  // Set: the value is padded to this many bytes (0: a short value)
	Fixed   bool // Set: values of one fixed length (so that an overwrite keeps the item's size)
}

func (s Step) String() string {
	return fmt.Sprintf("%s(%s,%q,desc=%v,val=%v,stop=%d)", opNames[s.K], s.Coll, s.Key, s.Desc, s.WithVal, s.Stop)
}

// Program is a complete concurrent test program.
type Program struct {
	Names   []string              // collections, sorted
	Initial map[string][]model.KV // contents before the workers start
	MemOnly bool
	Cold    int // file-backed: 0 all cached, 1 flushed+evicted, 2 flushed+re-opened (readers block in I/O)
	Mutator []Step
	Flusher []Step
	Readers [][]Step
	// Callbacks, when set, are installed in the store (reference count monitor).
	Callbacks *gkvlite.StoreCallbacks
	// CloseAtEnd closes the store after the final read (end-of-life balance checks).
	CloseAtEnd bool
	BigVals    int // number of Set steps with a value of 64 KiB or more
	// YieldingCmp gives every collection a comparator that is bytes.Compare preceded by a yield
	// point: under the deterministic scheduler every key comparison of every descent is a place
	// where another worker can run (an application comparator may block or be slow).
	YieldingCmp bool
}

// Event is one recorded client call.
type Event struct {
	Worker    int
	Step      Step
	Call, Ret int64
	Err       string
	Val       []byte
	Found     bool
	Seq       []model.KV
	N, B      uint64
	Snap      map[string][]model.KV
	Snap2     map[string][]model.KV // the same snapshot read a second time, later
	Mutated   string                // snapshot: a pinned node changed its unwritten item (hook walk)
	Was       bool
}

// Version is one published version of a collection.
type Version struct {
	Idx       int
	Call, Ret int64 // of the mutation that created it (0,0 for the initial one)
	M         *model.Coll
}

type FlushRec struct {
	Call, Ret int64
	Err       string
	Img       []byte
}

// History is everything recorded during one execution.
type History struct {
	Events   []Event
	Versions map[string][]Version
	Flushes  []FlushRec
	Panics   []string
	Final    map[string][]model.KV // contents read after all workers finished
	// Reopened: contents found by a second store on a copy of the file after one more Flush at
	// quiescence (nil when not applicable); ReopenErr: why that failed.
	Reopened  map[string][]model.KV
	ReopenErr string
	// Structural holds what Mode.AtQuiescence reported.
	Structural []string
	Hung       string
}

// Mode selects how the workers are run.
type Mode struct {
	Sched    *sched.Sched       // nil = free running
	Delay    func(point string) // free running: called at hooks / callbacks
	Deadline time.Duration
	// AtQuiescence, when set, runs after all workers have finished and before the final read
	// (structural checks through the hooks); what it returns is recorded in History.Structural.
	AtQuiescence func(colls map[string]*gkvlite.Collection, f *vfile.File) []string
}

type runner struct {
	p     *Program
	mode  Mode
	tick  int64
	mu    sync.Mutex
	h     *History
	s     *gkvlite.Store
	f     *vfile.File
	colls map[string]*gkvlite.Collection
	tags  sync.Map // goid -> tag
	// running is 1 while the worker programs execute
	running int32
}

func (r *runner) now() int64 { return atomic.AddInt64(&r.tick, 1) }

func (r *runner) yield(point string) {
	if r.mode.Sched != nil {
		r.mode.Sched.Yield(point)
	} else if r.mode.Delay != nil {
		r.mode.Delay(point)
	}
}

func (r *runner) record(e Event) {
	r.mu.Lock()
	r.h.Events = append(r.h.Events, e)
	r.mu.Unlock()
}

// cmp is the yielding comparator of Program.YieldingCmp (it only yields while the workers run).
func (r *runner) cmp(a, b []byte) int {
	if atomic.LoadInt32(&r.running) == 1 {
		r.yield("cmp")
	}
	return bytes.Compare(a, b)
}

func (r *runner) setTag(t string) { r.tags.Store(sched.Goid(), t) }

// Run executes the program and returns the recorded history plus the file.
func Run(p *Program, mode Mode) (*History, *vfile.File) {
	r := &runner{p: p, mode: mode, h: &History{Versions: map[string][]Version{}}, colls: map[string]*gkvlite.Collection{}}
	// ---- set-up (single threaded)
	if !p.MemOnly {
		r.f = vfile.New("conc")
		// the lazy-read monitor (C19) is active for concurrent executions too
		r.f.TrackValues = true
		r.f.KeyOnlyTags = map[string]bool{"Visit(k)": true, "MinMax(k)": true, "Set": true, "Delete": true}
		r.f.SetTagFunc(func() string {
			if t, ok := r.tags.Load(sched.Goid()); ok {
				return t.(string)
			}
			return ""
		})
	}
	open := func() {
		var err error
		var cb gkvlite.StoreCallbacks
		if p.Callbacks != nil {
			cb = *p.Callbacks
		}
		if p.YieldingCmp {
			cb.KeyCompareForCollection = func(string) gkvlite.KeyCompare { return r.cmp }
		}
		if r.s != nil && p.Callbacks != nil {
			r.s.Close() // release what the set-up store cached before re-opening
		}
		if p.MemOnly {
			r.s, err = gkvlite.NewStoreEx(nil, cb)
		} else {
			r.setTag("Open")
			r.s, err = gkvlite.NewStoreEx(r.f, cb)
			r.setTag("")
		}
		if err != nil {
			panic(err)
		}
	}
	open()
	for _, n := range p.Names {
		var kc gkvlite.KeyCompare
		if p.YieldingCmp {
			kc = r.cmp
		}
		c := r.s.SetCollection(n, kc)
		r.colls[n] = c
		m := model.NewColl(model.CmpBytes)
		for _, kv := range p.Initial[n] {
			it := &gkvlite.Item{Key: kv.Key, Val: kv.Val, Priority: kv.Prio}
			if p.Callbacks != nil && p.Callbacks.ItemAddRef != nil {
				p.Callbacks.ItemAddRef(c, it) // the application's own reference ...
			}
			if err := c.SetItem(it); err != nil {
				panic(err)
			}
			if p.Callbacks != nil && p.Callbacks.ItemDecRef != nil {
				p.Callbacks.ItemDecRef(c, it) // ... dropped after SetItem
			}
			m.Set(kv.Key, kv.Val, kv.Prio)
		}
		r.h.Versions[n] = []Version{{Idx: 0, M: m}}
	}
	if !p.MemOnly && p.Cold > 0 {
		r.setTag("Flush")
		if err := r.s.Flush(); err != nil {
			panic(err)
		}
		r.setTag("")
		if p.Cold == 1 {
			for _, n := range p.Names {
				for i := 0; i < 6; i++ {
					r.colls[n].EvictSomeItems()
				}
			}
		} else {
			open()
			for _, n := range p.Names {
				r.colls[n] = r.s.GetCollection(n)
			}
		}
	}
	// ---- hooks
	if mode.Sched != nil {
		gkvlite.VerifSetPoint(func(name string) { mode.Sched.Yield(name) })
		if r.f != nil {
			r.f.Yield = func(k vfile.Kind) { mode.Sched.Yield("io:" + k.String()) }
			r.f.YieldAfter = func(k vfile.Kind) { mode.Sched.Yield("io-done:" + k.String()) }
		}
	} else if mode.Delay != nil {
		gkvlite.VerifSetPoint(func(name string) { mode.Delay(name) })
		if r.f != nil {
			r.f.Yield = func(k vfile.Kind) { mode.Delay("io:" + k.String()) }
		}
	}
	defer func() {
		gkvlite.VerifSetPoint(nil)
		if r.f != nil {
			r.f.Yield = nil
			r.f.YieldAfter = nil
		}
	}()
	// ---- workers
	var progs []func()
	wid := 0
	mk := func(steps []Step) func() {
		id := wid
		wid++
		return func() { r.worker(id, steps) }
	}
	progs = append(progs, mk(p.Mutator), mk(p.Flusher))
	for _, rs := range p.Readers {
		progs = append(progs, mk(rs))
	}
	done := make(chan struct{})
	atomic.StoreInt32(&r.running, 1)
	if mode.Sched != nil {
		for _, fn := range progs {
			mode.Sched.Add(fn)
		}
		go func() { mode.Sched.Run(); close(done) }()
	} else {
		var wg sync.WaitGroup
		for _, fn := range progs {
			wg.Add(1)
			fn := fn
			go func() { defer wg.Done(); fn() }()
		}
		go func() { wg.Wait(); close(done) }()
	}
	dl := mode.Deadline
	if dl == 0 {
		dl = 60 * time.Second
	}
	select {
	case <-done:
		atomic.StoreInt32(&r.running, 0)
	case <-time.After(dl):
		buf := make([]byte, 1<<20)
		n := stackAll(buf)
		r.h.Hung = string(buf[:n])
		return r.h, r.f
	}
	if mode.AtQuiescence != nil {
		r.h.Structural = mode.AtQuiescence(r.colls, r.f)
	}
	// ---- final contents (quiescent)
	r.h.Final = map[string][]model.KV{}
	for _, n := range p.Names {
		seq, err := fullRead(r.colls[n])
		if err != nil {
			r.h.Panics = append(r.h.Panics, "final read of "+n+": "+err.Error())
		}
		r.h.Final[n] = seq
	}
	// ---- one more Flush at quiescence, and what a second store finds on a copy of the file
	if r.f != nil && p.Callbacks == nil && len(r.h.Panics) == 0 {
		func() {
			defer func() {
				if pv := recover(); pv != nil {
					r.h.Panics = append(r.h.Panics, fmt.Sprintf("final flush / re-open: %v", pv))
				}
			}()
			r.setTag("Flush")
			err := r.s.Flush()
			r.setTag("")
			if err != nil {
				r.h.ReopenErr = "final Flush: " + err.Error()
				return
			}
			s2, err := gkvlite.NewStore(vfile.FromBytes("conc-reopen", r.f.Bytes()))
			if err != nil {
				r.h.ReopenErr = "re-open after the final Flush: " + err.Error()
				return
			}
			r.h.Reopened = map[string][]model.KV{}
			for _, n := range p.Names {
				c := s2.GetCollection(n)
				if c == nil {
					r.h.ReopenErr = "re-open after the final Flush: collection " + n + " is missing"
					return
				}
				seq, err := fullRead(c)
				if err != nil {
					r.h.ReopenErr = "re-open after the final Flush: reading " + n + ": " + err.Error()
					return
				}
				r.h.Reopened[n] = seq
			}
			s2.Close()
		}()
	}
	if p.CloseAtEnd {
		r.s.Close()
	}
	return r.h, r.f
}

func fullRead(c *gkvlite.Collection) (seq []model.KV, err error) {
	defer func() {
		if p := recover(); p != nil {
			err = fmt.Errorf("panic: %v", p)
		}
	}()
	err = c.VisitItemsAscend(nil, true, func(i *gkvlite.Item) bool {
		seq = append(seq, model.KV{Key: append([]byte{}, i.Key...), Val: append([]byte{}, i.Val...), Prio: i.Priority})
		return true
	})
	return
}

func (r *runner) worker(id int, steps []Step) {
	defer func() {
		if p := recover(); p != nil {
			r.mu.Lock()
			r.h.Panics = append(r.h.Panics, fmt.Sprintf("worker %d: %v\n%s", id, p, trim(string(debug.Stack()))))
			r.mu.Unlock()
		}
	}()
	valN := 0
	for _, st := range steps {
		r.yield("op")
		c := r.colls[st.Coll]
		ev := Event{Worker: id, Step: st}
		switch st.K {
		case MSet, MDelete:
			vs := r.h.Versions[st.Coll] // only the mutator touches Versions while running
			cur := vs[len(vs)-1].M
			nm := cur.Clone()
			r.setTag(opNames[st.K])
			ev.Call = r.now()
			if st.K == MSet {
				valN++
				val := []byte(fmt.Sprintf("w%d:%d", id, valN))
				if st.Fixed {
					val = []byte(fmt.Sprintf("w%d:%06d", id, valN))
				}
				if st.Big > len(val) {
					pad := make([]byte, st.Big-len(val))
					for i := range pad {
						pad[i] = byte('a' + (i*7+valN)%26)
					}
					val = append(append(val, ':'), pad...)
				}
				ev.Val = val
				err := c.SetItem(&gkvlite.Item{Key: st.Key, Val: val, Priority: st.Prio})
				if err != nil {
					ev.Err = err.Error()
				}
				nm.Set(st.Key, val, st.Prio)
			} else {
				was, err := c.Delete(st.Key)
				if err != nil {
					ev.Err = err.Error()
				}
				ev.Was = was
				ev.Found = nm.Delete(st.Key)
			}
			ev.Ret = r.now()
			r.setTag("")
			r.mu.Lock()
			r.h.Versions[st.Coll] = append(vs, Version{Idx: len(vs), Call: ev.Call, Ret: ev.Ret, M: nm})
			r.mu.Unlock()
		case MEvict:
			r.setTag("Evict")
			ev.Call = r.now()
			c.EvictSomeItems()
			ev.Ret = r.now()
			r.setTag("")
		case FFlush:
			r.setTag("Flush")
			fr := FlushRec{Call: r.now()}
			err := r.s.Flush()
			fr.Ret = r.now()
			r.setTag("")
			if err != nil {
				fr.Err = err.Error()
			} else if r.f != nil {
				fr.Img = r.f.Bytes()
			}
			r.mu.Lock()
			r.h.Flushes = append(r.h.Flushes, fr)
			r.mu.Unlock()
			continue
		case RGet:
			r.setTag("Get")
			ev.Call = r.now()
			v, err := c.Get(st.Key)
			ev.Ret = r.now()
			if err != nil {
				ev.Err = err.Error()
			}
			ev.Found = v != nil
			ev.Val = append([]byte{}, v...)
		case RMin, RMax:
			if st.WithVal {
				r.setTag("MinMax(kv)")
			} else {
				r.setTag("MinMax(k)")
			}
			ev.Call = r.now()
			var it *gkvlite.Item
			var err error
			if st.K == RMin {
				it, err = c.MinItem(st.WithVal)
			} else {
				it, err = c.MaxItem(st.WithVal)
			}
			ev.Ret = r.now()
			if err != nil {
				ev.Err = err.Error()
			}
			if it != nil {
				ev.Found = true
				kv := model.KV{Key: append([]byte{}, it.Key...), Prio: it.Priority}
				if st.WithVal && it.Val != nil {
					kv.Val = append([]byte{}, it.Val...)
				}
				ev.Seq = []model.KV{kv}
				r.s.ItemDecRef(c, it) // the caller releases what Min/MaxItem handed out
			}
		case RTotals:
			r.setTag("Totals")
			ev.Call = r.now()
			n, b, err := c.GetTotals()
			ev.Ret = r.now()
			if err != nil {
				ev.Err = err.Error()
			}
			ev.N, ev.B = n, b
		case RVisit:
			if st.WithVal {
				r.setTag("Visit(kv)")
			} else {
				r.setTag("Visit(k)")
			}
			cnt := 0
			vis := func(i *gkvlite.Item) bool {
				kv := model.KV{Key: append([]byte{}, i.Key...), Prio: i.Priority}
				if st.WithVal && i.Val != nil {
					kv.Val = append([]byte{}, i.Val...)
				}
				ev.Seq = append(ev.Seq, kv)
				cnt++
				r.yield("cb")
				return !(st.Stop >= 0 && cnt > st.Stop)
			}
			ev.Call = r.now()
			var err error
			if st.Desc {
				err = c.VisitItemsDescend(st.Key, st.WithVal, vis)
			} else {
				err = c.VisitItemsAscend(st.Key, st.WithVal, vis)
			}
			ev.Ret = r.now()
			if err != nil {
				ev.Err = err.Error()
			}
		case RSnapshot:
			r.setTag("Snapshot")
			ev.Call = r.now()
			snap := r.s.Snapshot()
			ev.Ret = r.now()
			// A version that is pinned never changes: under the deterministic scheduler (one
			// goroutine runs at a time, so the hook walk is not a race) the unwritten items of the
			// snapshot's cached nodes are noted now and compared when the snapshot is released.
			var unwritten map[uintptr]*gkvlite.Item
			if r.mode.Sched != nil {
				unwritten = map[uintptr]*gkvlite.Item{}
				for _, n := range snap.GetCollectionNames() {
					gkvlite.VerifWalk(snap.GetCollection(n), func(v gkvlite.VerifNode) {
						if v.Item != nil && v.ItemOff == 0 && v.ItemLen == 0 {
							unwritten[v.Addr] = v.Item
						}
					})
				}
			}
			r.setTag("snap:Read")
			ev.Snap = map[string][]model.KV{}
			for _, n := range snap.GetCollectionNames() {
				r.yield("snapread")
				seq, err := fullRead(snap.GetCollection(n))
				if err != nil {
					ev.Err = err.Error()
				}
				ev.Snap[n] = seq
			}
			// ... and once more later: what a snapshot shows never changes
			ev.Snap2 = map[string][]model.KV{}
			for _, n := range snap.GetCollectionNames() {
				r.yield("snapread")
				seq, err := fullRead(snap.GetCollection(n))
				if err != nil {
					ev.Err = err.Error()
				}
				ev.Snap2[n] = seq
			}
			if unwritten != nil {
				for _, n := range snap.GetCollectionNames() {
					gkvlite.VerifWalk(snap.GetCollection(n), func(v gkvlite.VerifNode) {
						if was, ok := unwritten[v.Addr]; ok && v.Item != nil && v.ItemOff == 0 && v.ItemLen == 0 && v.Item != was && ev.Mutated == "" {
							ev.Mutated = fmt.Sprintf("collection %s: a node of the version the snapshot pinned held the unwritten item (%q,%q) when the snapshot was taken and holds the unwritten item (%q,%q) when it is released", n, was.Key, was.Val, v.Item.Key, v.Item.Val)
						}
					})
				}
			}
			snap.Close()
		}
		r.setTag("")
		r.record(ev)
	}
}

func trim(s string) string {
	var out []string
	for _, l := range strings.Split(s, "\n") {
		if strings.Contains(l, "gkvlite") || strings.Contains(l, "verif/") {
			out = append(out, strings.TrimSpace(l))
		}
		if len(out) > 20 {
			break
		}
	}
	return strings.Join(out, "\n")
}

// ---------------------------------------------------------------------------
// offline checkers

// Finding is a violation found by a checker.
type Finding struct{ Sig, Detail string }

func kvsEqual(a, b []model.KV, withVal bool) bool {
	if len(a) != len(b) {
		return false
	}
	for i := range a {
		if !bytes.Equal(a[i].Key, b[i].Key) || a[i].Prio != b[i].Prio {
			return false
		}
		if withVal && (a[i].Val == nil || !bytes.Equal(a[i].Val, b[i].Val)) {
			return false
		}
	}
	return true
}

func window(vs []Version, i int, end int64) (int64, int64) {
	lo := vs[i].Call
	hi := end
	if i+1 < len(vs) {
		hi = vs[i+1].Ret
	}
	return lo, hi
}

// Stats describes what a history exercised (coverage floor).
type Stats struct {
	ReaderOps, PinnedAcross2, FlushBetweenPins, ReaderIOAcrossPub, Versions, CandidatesMax int
}

// Check runs all offline checkers.
func Check(p *Program, h *History, porcupineTimeout time.Duration) (fs []Finding, st Stats, inconclusive string) {
	if h.Hung != "" {
		sig := "C05/hang/watchdog"
		if !strings.Contains(h.Hung, "[running]") && !strings.Contains(h.Hung, "[runnable]") {
			sig = "C05/deadlock/all-goroutines-blocked"
		}
		return []Finding{{sig, "the program did not finish; goroutine dump:\n" + firstN(h.Hung, 6000)}}, st, ""
	}
	for _, pn := range h.Panics {
		fs = append(fs, Finding{"C05/panic/" + panicKind(pn), pn})
	}
	if len(fs) > 0 {
		return
	}
	end := int64(1) << 62
	// (3) no spurious failure, no lost update
	for _, e := range h.Events {
		if e.Err != "" {
			kind := "reader"
			if e.Step.K == MSet || e.Step.K == MDelete {
				kind = "mutator"
			}
			fs = append(fs, Finding{"C05/error-returned/" + kind + "/" + opNames[e.Step.K], fmt.Sprintf("%s returned error %q", e.Step, e.Err)})
		}
		if e.Step.K == MDelete && e.Err == "" && e.Was != e.Found {
			fs = append(fs, Finding{"C05/delete-wrong-result", fmt.Sprintf("%s reported %v, model %v", e.Step, e.Was, e.Found)})
		}
	}
	for _, fl := range h.Flushes {
		if fl.Err != "" && !p.MemOnly {
			fs = append(fs, Finding{"C05/error-returned/flusher", "Flush returned error " + fl.Err})
		}
	}
	if h.ReopenErr != "" {
		fs = append(fs, Finding{"C05/final-flush-or-re-open-failed", h.ReopenErr})
	}
	for _, n := range p.Names {
		vs := h.Versions[n]
		st.Versions += len(vs)
		if !kvsEqual(h.Final[n], vs[len(vs)-1].M.Sorted(), true) {
			fs = append(fs, Finding{"C05/lost-update", fmt.Sprintf("collection %s: final contents %v differ from the result of applying all mutations %v", n, keys(h.Final[n]), keys(vs[len(vs)-1].M.Sorted()))})
		} else if h.Reopened != nil && !kvsEqual(h.Reopened[n], vs[len(vs)-1].M.Sorted(), true) {
			fs = append(fs, Finding{"C05/lost-update/after-final-flush-and-re-open", fmt.Sprintf("collection %s: after one more Flush at quiescence a second store on a copy of the file holds %v, the result of applying all mutations is %v", n, keys(h.Reopened[n]), keys(vs[len(vs)-1].M.Sorted()))})
		}
	}
	if len(fs) > 0 {
		return
	}
	// (1) version-interval checker
	for _, e := range h.Events {
		switch e.Step.K {
		case RGet, RMin, RMax, RTotals, RVisit:
			st.ReaderOps++
			vs := h.Versions[e.Step.Coll]
			ok := false
			cands := 0
			for i := range vs {
				lo, hi := window(vs, i, end)
				if hi < e.Call || lo > e.Ret {
					continue
				}
				cands++
				if matches(e, vs[i].M) {
					ok = true
				}
			}
			if cands > st.CandidatesMax {
				st.CandidatesMax = cands
			}
			if cands >= 3 {
				st.PinnedAcross2++
			}
			if !ok {
				fs = append(fs, Finding{"C05/no-single-version/" + opNames[e.Step.K], fmt.Sprintf("%s during [%d,%d] returned %s, which is not the answer of any of the %d version(s) current in that interval", e.Step, e.Call, e.Ret, describe(e), cands)})
			}
		case RSnapshot:
			st.ReaderOps++
			for _, n := range p.Names {
				vs := h.Versions[n]
				ok := false
				for i := range vs {
					lo, hi := window(vs, i, end)
					if hi < e.Call || lo > e.Ret {
						continue
					}
					if kvsEqual(e.Snap[n], vs[i].M.Sorted(), true) {
						ok = true
					}
				}
				if e.Mutated != "" && n == p.Names[0] {
					fs = append(fs, Finding{"C05/pinned-version-mutated", fmt.Sprintf("Snapshot() during [%d,%d]: %s", e.Call, e.Ret, e.Mutated)})
				}
				if e.Snap2 != nil && !kvsEqual(e.Snap[n], e.Snap2[n], true) {
					fs = append(fs, Finding{"C05/snapshot-changed", fmt.Sprintf("Snapshot() during [%d,%d]: collection %s read through it twice: first %v, later %v", e.Call, e.Ret, n, keys(e.Snap[n]), keys(e.Snap2[n]))})
				}
				if !ok {
					fs = append(fs, Finding{"C05/no-single-version/Snapshot", fmt.Sprintf("Snapshot() during [%d,%d]: collection %s read through it holds %v, no version current during the call has that", e.Call, e.Ret, n, keys(e.Snap[n]))})
				}
			}
		}
	}
	// (4) flush-order checker
	if !p.MemOnly {
		for fi, fl := range h.Flushes {
			if fl.Err != "" || fl.Img == nil {
				continue
			}
			img, err := decoder.Decode(fl.Img, int64(len(fl.Img)), nil)
			if err != nil {
				fs = append(fs, Finding{"C05/flush/decode", fmt.Sprintf("file after concurrent flush %d does not decode: %v", fi, err)})
				continue
			}
			prev := fl.Call
			for _, n := range p.Names {
				dc := img.Colls[n]
				if dc == nil {
					fs = append(fs, Finding{"C05/flush/collection-missing", fmt.Sprintf("flush %d: collection %s missing from the root record", fi, n)})
					break
				}
				var got []model.KV
				for _, it := range dc.Items {
					got = append(got, model.KV{Key: it.Key, Val: it.Val, Prio: it.Prio})
				}
				vs := h.Versions[n]
				best := int64(-1)
				anyMatch := false
				for i := range vs {
					if !kvsEqual(got, vs[i].M.Sorted(), true) {
						continue
					}
					anyMatch = true
					lo, hi := window(vs, i, end)
					t := prev
					if lo > t {
						t = lo
					}
					if t <= hi && t <= fl.Ret {
						if best < 0 || t < best {
							best = t
						}
					}
				}
				if !anyMatch {
					fs = append(fs, Finding{"C05/flush/persisted-no-version", fmt.Sprintf("flush %d [%d,%d]: collection %s was persisted as %v, which no published version of it ever had", fi, fl.Call, fl.Ret, n, keys(got))})
					break
				}
				if best < 0 {
					fs = append(fs, Finding{"C05/flush/order", fmt.Sprintf("flush %d [%d,%d]: collection %s was persisted in a state that was not current at any instant of the flush at or after the instant the earlier-named collections were captured (t>=%d)", fi, fl.Call, fl.Ret, n, prev)})
					break
				}
				if best > prev {
					st.FlushBetweenPins++
				}
				prev = best
			}
		}
	}
	// (2) porcupine on the per-key register sub-history
	if len(fs) == 0 {
		if res := porcupineCheck(p, h, porcupineTimeout); res == porcupine.Illegal {
			fs = append(fs, Finding{"C05/not-linearizable/per-key-register", "porcupine: the Get/Set/Delete sub-history of some key is not linearizable against a register"})
		} else if res == porcupine.Unknown {
			inconclusive = "porcupine timed out"
		}
	}
	return
}

func matches(e Event, m *model.Coll) bool {
	switch e.Step.K {
	case RGet:
		it, ok := m.Get(e.Step.Key)
		if !ok {
			return !e.Found
		}
		return e.Found && bytes.Equal(e.Val, it.Val)
	case RMin, RMax:
		s := m.Sorted()
		if len(s) == 0 {
			return !e.Found
		}
		w := s[0]
		if e.Step.K == RMax {
			w = s[len(s)-1]
		}
		return e.Found && kvsEqual(e.Seq, []model.KV{w}, e.Step.WithVal)
	case RTotals:
		n, b := m.Totals()
		return n == e.N && b == e.B
	case RVisit:
		var exp []model.KV
		if e.Step.Desc {
			exp = m.Descend(e.Step.Key)
		} else {
			exp = m.Ascend(e.Step.Key)
		}
		if e.Step.Stop >= 0 && len(exp) > e.Step.Stop+1 {
			exp = exp[:e.Step.Stop+1]
		}
		return kvsEqual(e.Seq, exp, e.Step.WithVal)
	}
	return false
}

func describe(e Event) string {
	switch e.Step.K {
	case RGet:
		return fmt.Sprintf("found=%v val=%q", e.Found, e.Val)
	case RTotals:
		return fmt.Sprintf("(%d items, %d bytes)", e.N, e.B)
	}
	var sb strings.Builder
	for _, kv := range e.Seq {
		v := "<nil>"
		if kv.Val != nil {
			v = string(kv.Val)
		}
		fmt.Fprintf(&sb, "%q=%s/%d ", kv.Key, v, kv.Prio)
	}
	return "[" + strings.TrimSpace(sb.String()) + "]"
}

func keys(kvs []model.KV) string {
	var s []string
	for _, kv := range kvs {
		s = append(s, fmt.Sprintf("%q=%q", kv.Key, kv.Val))
	}
	return "[" + strings.Join(s, " ") + "]"
}

func panicKind(s string) string {
	switch {
	case strings.Contains(s, "nil pointer"):
		return "nil-deref"
	case strings.Contains(s, "double free"):
		return "double-free"
	case strings.Contains(s, "chain already taken"):
		return "chain-taken"
	case strings.Contains(s, "visitNodes nItem nil"):
		return "recycled-node"
	case strings.Contains(s, "index out of range"), strings.Contains(s, "slice bounds"):
		return "bounds"
	}
	return "other"
}

func firstN(s string, n int) string {
	if len(s) > n {
		return s[:n]
	}
	return s
}

func stackAll(buf []byte) int { return runtimeStack(buf) }

// ---- porcupine

type regIn struct {
	Key  string
	Kind OpKind
	Val  string
}
type regOut struct {
	Val   string
	Found bool
}

func porcupineCheck(p *Program, h *History, timeout time.Duration) porcupine.CheckResult {
	var ops []porcupine.Operation
	for _, e := range h.Events {
		switch e.Step.K {
		case MSet:
			ops = append(ops, porcupine.Operation{ClientId: e.Worker, Input: regIn{e.Step.Coll + "/" + string(e.Step.Key), MSet, string(e.Val)}, Call: e.Call, Output: regOut{}, Return: e.Ret})
		case MDelete:
			ops = append(ops, porcupine.Operation{ClientId: e.Worker, Input: regIn{e.Step.Coll + "/" + string(e.Step.Key), MDelete, ""}, Call: e.Call, Output: regOut{Found: e.Was}, Return: e.Ret})
		case RGet:
			ops = append(ops, porcupine.Operation{ClientId: e.Worker, Input: regIn{e.Step.Coll + "/" + string(e.Step.Key), RGet, ""}, Call: e.Call, Output: regOut{Val: string(e.Val), Found: e.Found}, Return: e.Ret})
		}
	}
	if len(ops) == 0 {
		return porcupine.Ok
	}
	init := map[string]regOut{}
	for n, kvs := range p.Initial {
		for _, kv := range kvs {
			init[n+"/"+string(kv.Key)] = regOut{Val: string(kv.Val), Found: true}
		}
	}
	mdl := porcupine.Model{
		Partition: func(history []porcupine.Operation) [][]porcupine.Operation {
			by := map[string][]porcupine.Operation{}
			var ks []string
			for _, o := range history {
				k := o.Input.(regIn).Key
				if _, ok := by[k]; !ok {
					ks = append(ks, k)
				}
				by[k] = append(by[k], o)
			}
			sort.Strings(ks)
			var res [][]porcupine.Operation
			for _, k := range ks {
				res = append(res, by[k])
			}
			return res
		},
		Init: func() interface{} { return regOut{Val: "\x00init"} },
		Step: func(state, input, output interface{}) (bool, interface{}) {
			st := state.(regOut)
			in := input.(regIn)
			out := output.(regOut)
			if st.Val == "\x00init" {
				st = init[in.Key]
			}
			switch in.Kind {
			case MSet:
				return true, regOut{Val: in.Val, Found: true}
			case MDelete:
				return out.Found == st.Found, regOut{}
			default:
				if !st.Found {
					return !out.Found, st
				}
				return out.Found && out.Val == st.Val, st
			}
		},
		Equal: func(a, b interface{}) bool { return a.(regOut) == b.(regOut) },
	}
	res, _ := porcupine.CheckOperationsVerbose(mdl, ops, timeout)
	return res
}
