// Package decoder is an independent reader (and writer) of the gkvlite
// version-4 file layout.  It is written from the format description only and
// imports nothing but the standard library; in particular it shares no code
// with gkvlite.
//
// Layout (all integers big endian):
//
//	item record : u32 total(=16+klen+vlen) | u32 klen | u32 vlen | i32 priority | key | value
//	node record : 52 bytes = itemLoc | leftLoc | rightLoc | u64 numNodes | u64 numBytes
//	              where a Loc is i64 offset | u32 length, and (0,0) means "none"
//	root record : "0g1t2r""0g1t2r" | u32 version(=4) | u32 length | JSON {name:{"o":off,"l":len}} |
//	              i64 offset-of-record | u32 length | "3e4a5p""3e4a5p"
package decoder

import (
	"bytes"
	"encoding/binary"
	"encoding/json"
	"errors"
	"fmt"
	"sort"
)

var (
	MagicBeg = []byte("0g1t2r")
	MagicEnd = []byte("3e4a5p")
)

const (
	Version     = 4
	NodeLen     = 52
	ItemHdrLen  = 16
	rootTailLen = 8 + 4 + 12
	rootMinLen  = 12 + 4 + 4 + rootTailLen // 44, without any JSON
)

type Loc struct {
	O int64  `json:"o"`
	L uint32 `json:"l"`
}

func (l Loc) Empty() bool { return l.O == 0 && l.L == 0 }

type Item struct {
	Key, Val []byte
	Prio     int32
	Off      int64 // offset of the item record
	Len      uint32
	ValOff   int64 // offset of the first value byte
	Depth    int
	NodeOff  int64
}

type Coll struct {
	Name     string
	Root     Loc
	Items    []Item // in-order
	NumNodes int
}

type Image struct {
	RootStart, RootEnd int64
	Names              []string // sorted
	Colls              map[string]*Coll
}

// Compare is a key comparator.
type Compare func(a, b []byte) int

// FindLastRoot scans backwards from limit (<= len(b)) for the last complete,
// self-consistent root record and returns its byte range and JSON payload.
func FindLastRoot(b []byte, limit int64) (start, end int64, js []byte, ok bool) {
	if limit > int64(len(b)) {
		limit = int64(len(b))
	}
	for end = limit; end > rootMinLen; end-- {
		if start, js, ok = rootAt(b, end); ok {
			return start, end, js, true
		}
	}
	return 0, 0, nil, false
}

// rootAt reports whether a complete root record ends exactly at end.
func rootAt(b []byte, end int64) (start int64, js []byte, ok bool) {
	if end > int64(len(b)) || end <= rootMinLen {
		return 0, nil, false
	}
	tail := b[end-rootTailLen : end]
	if !bytes.Equal(tail[12:18], MagicEnd) || !bytes.Equal(tail[18:24], MagicEnd) {
		return 0, nil, false
	}
	off := int64(binary.BigEndian.Uint64(tail[0:8]))
	length := binary.BigEndian.Uint32(tail[8:12])
	if off < 0 || off >= end-rootMinLen || int64(length) != end-off {
		return 0, nil, false
	}
	rec := b[off:end]
	if !bytes.Equal(rec[0:6], MagicBeg) || !bytes.Equal(rec[6:12], MagicBeg) {
		return 0, nil, false
	}
	if binary.BigEndian.Uint32(rec[12:16]) != Version {
		return 0, nil, false
	}
	if binary.BigEndian.Uint32(rec[16:20]) != length {
		return 0, nil, false
	}
	js = rec[20 : len(rec)-rootTailLen]
	var m map[string]Loc
	if err := json.Unmarshal(js, &m); err != nil {
		return 0, nil, false
	}
	return off, js, true
}

// RootEndsAt reports whether a complete, self-consistent root record ends exactly at end.
func RootEndsAt(b []byte, end int64) bool {
	_, _, ok := rootAt(b, end)
	return ok
}

// IsRootRecord reports whether p, written at offset off, is exactly one
// complete root record (used by the file monitor to recognise commits).
func IsRootRecord(p []byte, off int64) bool {
	if len(p) <= rootMinLen {
		return false
	}
	if !bytes.Equal(p[0:6], MagicBeg) || !bytes.Equal(p[6:12], MagicBeg) {
		return false
	}
	n := len(p)
	if !bytes.Equal(p[n-12:n-6], MagicEnd) || !bytes.Equal(p[n-6:], MagicEnd) {
		return false
	}
	if binary.BigEndian.Uint32(p[12:16]) != Version {
		return false
	}
	if binary.BigEndian.Uint32(p[16:20]) != uint32(n) {
		return false
	}
	if int64(binary.BigEndian.Uint64(p[n-24:n-16])) != off {
		return false
	}
	if binary.BigEndian.Uint32(p[n-16:n-12]) != uint32(n) {
		return false
	}
	var m map[string]Loc
	return json.Unmarshal(p[20:n-24], &m) == nil
}

// Decode reconstructs the state described by the last root record at or
// before limit (use len(b) for the whole file), validating every structural
// rule of the layout on the way.  cmp may be nil (bytes.Compare for all).
func Decode(b []byte, limit int64, cmp func(name string) Compare) (*Image, error) {
	start, end, js, ok := FindLastRoot(b, limit)
	if !ok {
		return nil, ErrNoRoot
	}
	return decodeRoot(b, start, end, js, cmp)
}

var ErrNoRoot = errors.New("decoder: no root record")

// DecodeAt decodes the root record that ends exactly at end.
func DecodeAt(b []byte, end int64, cmp func(name string) Compare) (*Image, error) {
	start, js, ok := rootAt(b, end)
	if !ok {
		return nil, ErrNoRoot
	}
	return decodeRoot(b, start, end, js, cmp)
}

func decodeRoot(b []byte, start, end int64, js []byte, cmp func(name string) Compare) (*Image, error) {
	var m map[string]Loc
	if err := json.Unmarshal(js, &m); err != nil {
		return nil, err
	}
	img := &Image{RootStart: start, RootEnd: end, Colls: map[string]*Coll{}}
	for name := range m {
		img.Names = append(img.Names, name)
	}
	sort.Strings(img.Names)
	for _, name := range img.Names {
		c := &Coll{Name: name, Root: m[name]}
		var cf Compare = bytes.Compare
		if cmp != nil {
			if f := cmp(name); f != nil {
				cf = f
			}
		}
		if !c.Root.Empty() {
			if _, _, _, err := walk(b, start, c.Root, 0, c, map[int64]bool{}); err != nil {
				return nil, fmt.Errorf("collection %q: %w", name, err)
			}
			for i := 1; i < len(c.Items); i++ {
				if cf(c.Items[i-1].Key, c.Items[i].Key) >= 0 {
					return nil, fmt.Errorf("collection %q: keys out of order at index %d: %q !< %q",
						name, i, c.Items[i-1].Key, c.Items[i].Key)
				}
			}
		}
		img.Colls[name] = c
	}
	return img, nil
}

// walk returns (numNodes, numBytes, nodeStartOffset).
func walk(b []byte, rootStart int64, loc Loc, depth int, c *Coll, seen map[int64]bool) (uint64, uint64, int64, error) {
	if loc.L != NodeLen {
		return 0, 0, 0, fmt.Errorf("node loc length %d != %d at offset %d", loc.L, NodeLen, loc.O)
	}
	if loc.O < 0 || loc.O+NodeLen > rootStart {
		return 0, 0, 0, fmt.Errorf("node record [%d,+%d) outside data area (root at %d)", loc.O, NodeLen, rootStart)
	}
	if seen[loc.O] {
		return 0, 0, 0, fmt.Errorf("node at %d reachable twice (cycle or DAG)", loc.O)
	}
	seen[loc.O] = true
	if depth > 1<<16 {
		return 0, 0, 0, errors.New("tree too deep")
	}
	r := b[loc.O : loc.O+NodeLen]
	il := Loc{int64(binary.BigEndian.Uint64(r[0:8])), binary.BigEndian.Uint32(r[8:12])}
	ll := Loc{int64(binary.BigEndian.Uint64(r[12:20])), binary.BigEndian.Uint32(r[20:24])}
	rl := Loc{int64(binary.BigEndian.Uint64(r[24:32])), binary.BigEndian.Uint32(r[32:36])}
	numNodes := binary.BigEndian.Uint64(r[36:44])
	numBytes := binary.BigEndian.Uint64(r[44:52])
	if il.Empty() {
		return 0, 0, 0, fmt.Errorf("node at %d has no item", loc.O)
	}
	var cn, cb uint64 = 1, 0
	if !ll.Empty() {
		if ll.O+int64(ll.L) > loc.O {
			return 0, 0, 0, fmt.Errorf("node at %d written before its left child at %d", loc.O, ll.O)
		}
		n, by, _, err := walk(b, rootStart, ll, depth+1, c, seen)
		if err != nil {
			return 0, 0, 0, err
		}
		cn += n
		cb += by
	}
	// the item
	if il.L < ItemHdrLen || il.O < 0 || il.O+int64(il.L) > rootStart {
		return 0, 0, 0, fmt.Errorf("item loc (%d,%d) of node at %d out of range", il.O, il.L, loc.O)
	}
	if il.O+int64(il.L) > loc.O {
		return 0, 0, 0, fmt.Errorf("node at %d written before its item at %d", loc.O, il.O)
	}
	h := b[il.O : il.O+ItemHdrLen]
	total := binary.BigEndian.Uint32(h[0:4])
	klen := binary.BigEndian.Uint32(h[4:8])
	vlen := binary.BigEndian.Uint32(h[8:12])
	prio := int32(binary.BigEndian.Uint32(h[12:16]))
	if total != il.L {
		return 0, 0, 0, fmt.Errorf("item at %d: record length %d != location length %d", il.O, total, il.L)
	}
	if uint64(total) != uint64(ItemHdrLen)+uint64(klen)+uint64(vlen) {
		return 0, 0, 0, fmt.Errorf("item at %d: length %d != 16+%d+%d", il.O, total, klen, vlen)
	}
	if klen == 0 || klen > 0xffff {
		return 0, 0, 0, fmt.Errorf("item at %d: key length %d", il.O, klen)
	}
	if prio < 0 {
		return 0, 0, 0, fmt.Errorf("item at %d: negative priority %d", il.O, prio)
	}
	ko := il.O + ItemHdrLen
	it := Item{
		Key:  append([]byte{}, b[ko:ko+int64(klen)]...),
		Val:  append([]byte{}, b[ko+int64(klen):ko+int64(klen)+int64(vlen)]...),
		Prio: prio, Off: il.O, Len: il.L, ValOff: ko + int64(klen), Depth: depth, NodeOff: loc.O,
	}
	c.Items = append(c.Items, it)
	c.NumNodes++
	cb += uint64(klen) + uint64(vlen)
	if !rl.Empty() {
		if rl.O+int64(rl.L) > loc.O {
			return 0, 0, 0, fmt.Errorf("node at %d written before its right child at %d", loc.O, rl.O)
		}
		n, by, _, err := walk(b, rootStart, rl, depth+1, c, seen)
		if err != nil {
			return 0, 0, 0, err
		}
		cn += n
		cb += by
	}
	if cn != numNodes {
		return 0, 0, 0, fmt.Errorf("node at %d records numNodes=%d, subtree has %d", loc.O, numNodes, cn)
	}
	if cb != numBytes {
		return 0, 0, 0, fmt.Errorf("node at %d records numBytes=%d, subtree has %d", loc.O, numBytes, cb)
	}
	return cn, cb, loc.O, nil
}

// ---------------------------------------------------------------------------
// Independent encoder: produces a conforming file from a plain description.

type EncItem struct {
	Key, Val []byte
	Prio     int32
}

type EncColl struct {
	Name  string
	Items []EncItem // must be sorted by key; the tree is the Cartesian tree on Prio (ties: leftmost wins)
}

// Encode appends one "flush" (items, nodes children-first, root record) for
// the given collections to prev and returns the new file bytes.
func Encode(prev []byte, colls []EncColl) []byte {
	b := append([]byte{}, prev...)
	roots := map[string]Loc{}
	for _, c := range colls {
		ilocs := make([]Loc, len(c.Items))
		for i, it := range c.Items {
			off := int64(len(b))
			total := uint32(ItemHdrLen + len(it.Key) + len(it.Val))
			var h [ItemHdrLen]byte
			binary.BigEndian.PutUint32(h[0:4], total)
			binary.BigEndian.PutUint32(h[4:8], uint32(len(it.Key)))
			binary.BigEndian.PutUint32(h[8:12], uint32(len(it.Val)))
			binary.BigEndian.PutUint32(h[12:16], uint32(it.Prio))
			b = append(b, h[:]...)
			b = append(b, it.Key...)
			b = append(b, it.Val...)
			ilocs[i] = Loc{off, total}
		}
		var build func(lo, hi int) (Loc, uint64, uint64)
		build = func(lo, hi int) (Loc, uint64, uint64) {
			if lo >= hi {
				return Loc{}, 0, 0
			}
			top := lo
			for i := lo + 1; i < hi; i++ {
				if c.Items[i].Prio > c.Items[top].Prio {
					top = i
				}
			}
			ll, ln, lb := build(lo, top)
			rl, rn, rb := build(top+1, hi)
			n := ln + rn + 1
			by := lb + rb + uint64(len(c.Items[top].Key)+len(c.Items[top].Val))
			off := int64(len(b))
			var r [NodeLen]byte
			putLoc(r[0:12], ilocs[top])
			putLoc(r[12:24], ll)
			putLoc(r[24:36], rl)
			binary.BigEndian.PutUint64(r[36:44], n)
			binary.BigEndian.PutUint64(r[44:52], by)
			b = append(b, r[:]...)
			return Loc{off, NodeLen}, n, by
		}
		rl, _, _ := build(0, len(c.Items))
		roots[c.Name] = rl
	}
	js, _ := json.Marshal(roots)
	off := int64(len(b))
	length := uint32(12 + 4 + 4 + len(js) + rootTailLen)
	b = append(b, MagicBeg...)
	b = append(b, MagicBeg...)
	b = binary.BigEndian.AppendUint32(b, Version)
	b = binary.BigEndian.AppendUint32(b, length)
	b = append(b, js...)
	b = binary.BigEndian.AppendUint64(b, uint64(off))
	b = binary.BigEndian.AppendUint32(b, length)
	b = append(b, MagicEnd...)
	b = append(b, MagicEnd...)
	return b
}

func putLoc(p []byte, l Loc) {
	binary.BigEndian.PutUint64(p[0:8], uint64(l.O))
	binary.BigEndian.PutUint32(p[8:12], l.L)
}

// Subtree decodes the persisted subtree rooted at loc (which must lie below
// limit) and returns its items in order (depths relative to loc) plus the
// aggregates recorded in its root node.
func Subtree(b []byte, limit int64, loc Loc) (items []Item, numNodes, numBytes uint64, err error) {
	if limit > int64(len(b)) {
		limit = int64(len(b))
	}
	c := &Coll{}
	n, by, _, err := walk(b, limit, loc, 0, c, map[int64]bool{})
	return c.Items, n, by, err
}

// ItemAt parses the item record at loc.
func ItemAt(b []byte, loc Loc) (Item, error) {
	if loc.L < ItemHdrLen || loc.O < 0 || loc.O+int64(loc.L) > int64(len(b)) {
		return Item{}, fmt.Errorf("item loc (%d,%d) out of range (file %d)", loc.O, loc.L, len(b))
	}
	h := b[loc.O : loc.O+ItemHdrLen]
	total := binary.BigEndian.Uint32(h[0:4])
	klen := binary.BigEndian.Uint32(h[4:8])
	vlen := binary.BigEndian.Uint32(h[8:12])
	prio := int32(binary.BigEndian.Uint32(h[12:16]))
	if total != loc.L || uint64(total) != uint64(ItemHdrLen)+uint64(klen)+uint64(vlen) {
		return Item{}, fmt.Errorf("item at %d: inconsistent lengths total=%d loc=%d klen=%d vlen=%d", loc.O, total, loc.L, klen, vlen)
	}
	ko := loc.O + ItemHdrLen
	return Item{Key: append([]byte{}, b[ko:ko+int64(klen)]...), Val: append([]byte{}, b[ko+int64(klen):ko+int64(klen)+int64(vlen)]...),
		Prio: prio, Off: loc.O, Len: loc.L, ValOff: ko + int64(klen)}, nil
}
