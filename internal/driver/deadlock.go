package driver

import (
	"regexp"
	"runtime"
	"strings"
	"sync/atomic"
	"time"
)

// ProcessTainted is set once a call was abandoned as blocked for ever: its goroutine (and whatever
// global state it holds) stays behind, so the process should not run further cases.
var ProcessTainted atomic.Bool

var (
	goHdr    = regexp.MustCompile(`(?m)^goroutine (\d+) \[([^\]]*)\]:`)
	waitTime = regexp.MustCompile(`, \d+ minutes`)
)

// blockedForever reports whether a full goroutine dump shows every goroutine
// other than the caller parked on a channel, a select or a sync primitive -
// states that only another goroutine can end.  Timers, sleeps, system calls and
// runnable goroutines make it false.  (The caller is the first goroutine of the
// dump; the os/signal loop sits in a system call for ever and is ignored.)
func blockedForever(dump string) bool {
	parts := strings.Split(dump, "\n\n")
	if len(parts) < 2 {
		return false
	}
	for _, g := range parts[1:] {
		m := goHdr.FindStringSubmatch(g)
		if m == nil {
			continue
		}
		if strings.Contains(g, "os/signal.loop") || strings.Contains(g, "os/signal.signal_recv") {
			continue
		}
		st := waitTime.ReplaceAllString(m[2], "")
		switch {
		case strings.HasPrefix(st, "chan receive"), strings.HasPrefix(st, "chan send"), strings.HasPrefix(st, "select"),
			strings.HasPrefix(st, "semacquire"), strings.HasPrefix(st, "sync."):
		default:
			return false
		}
	}
	return true
}

// RunDetectingDeadlock runs fn in its own goroutine and waits for it.  The
// verdict "blocked" is a logical one, not a deadline: it is given only when, on
// 8 successive observations, every goroutine of the process (the observer
// apart) is parked on a channel or sync primitive with identical stacks, i.e.
// nothing is left that could ever wake fn.  Under load the observations just
// take longer.
func RunDetectingDeadlock(fn func()) (blocked bool, dump string) {
	done := make(chan struct{})
	go func() {
		defer close(done)
		fn()
	}()
	buf := make([]byte, 1<<20)
	last, same := "", 0
	wait := time.Millisecond
	for {
		select {
		case <-done:
			return false, ""
		case <-time.After(wait):
		}
		if wait < 40*time.Millisecond {
			wait *= 2
		}
		n := runtime.Stack(buf, true)
		d := string(buf[:n])
		if !blockedForever(d) {
			last, same = "", 0
			continue
		}
		norm := waitTime.ReplaceAllString(d, "")
		if i := strings.Index(norm, "\n\n"); i >= 0 {
			norm = norm[i:] // the observer's own stack varies
		}
		if norm == last {
			same++
		} else {
			last, same = norm, 0
		}
		if same >= 8 {
			ProcessTainted.Store(true)
			return true, d
		}
	}
}
