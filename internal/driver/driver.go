// Package driver executes operations against a real gkvlite store and the
// reference model in lock-step, comparing every result, and runs the
// always-on monitors (file rules, tree walk, reference counts).
package driver

import (
	"bytes"
	"fmt"
	"io"
	"runtime/debug"
	"sort"
	"strconv"
	"strings"
	"sync/atomic"

	"github.com/cbehopkins/gkvlite"

	"verif/internal/decoder"
	"verif/internal/gen"
	"verif/internal/model"
	"verif/internal/vfile"
)

// CBMask selects groups of neutral callbacks.
type CBMask uint

const (
	CBAlloc CBMask = 1 << iota
	CBRef
	CBVal
	CBBefore
	CBAfter
	CBCmp
	CBAll = CBAlloc | CBRef | CBVal | CBBefore | CBAfter | CBCmp
	// CBValDouble is NOT neutral in length: a self-consistent codec whose on-disk value is twice as
	// long as Item.Val (every byte written twice).  All byte totals are then defined through
	// ItemValLength, which is what the aggregates must use on every path (C13).
	CBValDouble CBMask = 1 << 8
	// CBSwap is a BeforeItemWrite/AfterItemRead pair that changes the record: the item written is a
	// substitute whose key is encoded (every byte ^ 0x5a) and whose value carries a 4-byte checksum
	// trailer; both are undone after a read (the encryption / compression / integrity-trailer use
	// of these callbacks).  Byte totals are not
	// compared under it: the store accounts an unwritten item by Item.Val and a written one by its
	// record, so they depend on when each node was built.
	CBSwap CBMask = 1 << 9
	// CBTouchOther: BeforeItemWrite (i.e. the middle of a Flush or Collection.Write) re-sets one
	// existing item of ANOTHER collection to exactly the key, value and priority it already has:
	// that collection gets a new, unwritten version between the moment Flush pinned its version
	// and the moment Flush writes it, while its contents stay the same.
	CBTouchOther CBMask = 1 << 10
	// CBReplaceOther: BeforeItemWrite (the middle of a Flush) calls SetCollection on ANOTHER
	// existing name with the comparator it already has: that collection keeps all its items and
	// gets a new handle while the Flush has its old version pinned.
	CBReplaceOther CBMask = 1 << 11
)

func swapSum(key, val []byte) [4]byte {
	h := uint32(2166136261)
	for _, b := range key {
		h = (h ^ uint32(b)) * 16777619
	}
	for _, b := range val {
		h = (h ^ uint32(b)) * 16777619
	}
	return [4]byte{byte(h >> 24), byte(h >> 16), byte(h >> 8), byte(h)}
}

// SwapStrip undoes the CBSwap trailer on a value taken from the file; ok=false on a checksum mismatch.
func SwapStrip(key, disk []byte) ([]byte, bool) {
	if len(disk) < 4 {
		return nil, false
	}
	v := disk[:len(disk)-4]
	t := swapSum(key, v)
	return v, bytes.Equal(t[:], disk[len(disk)-4:])
}

// ValBytes is the number of bytes a value accounts for under the configured callbacks.
func (e *Env) ValBytes(v []byte) int {
	if e.Cfg.CB&CBValDouble != 0 {
		return 2 * len(v)
	}
	return len(v)
}

// Totals returns the expected (items, bytes) of a model collection under the configured callbacks.
func (e *Env) Totals(m *model.Coll) (uint64, uint64) {
	var n, b uint64
	for k, it := range m.Items {
		n++
		b += uint64(len(k) + e.ValBytes(it.Val))
	}
	return n, b
}

// Config selects monitors and modes.
type Config struct {
	ReaderInRevert   bool // a reader goroutine calls GetCollectionNames in the middle of every FlushRevert
	IterAcrossRevert bool // an unfinished iterator is open across every FlushRevert
	RefOnly          bool // with RefMon: ItemAddRef/ItemDecRef without ItemAlloc (items made by the store start at one)
	Recycle          bool // with RefMon: items whose count reaches zero are wiped (recycling allocator)
	TouchMany        bool // with CBTouchOther: up to four touches per Flush, each of another item
	NoCmpCallback    bool // never install KeyCompareForCollection (the case keeps every state it loads in the default order)
	MemOnly          bool
	CB               CBMask
	Walk             bool // tree walk + free-list reachability via the verif hooks after each step
	ReadbackK        int  // full read-back of every open handle every K steps (0 = never, 1 = every step)
	ReopenCheck      bool // after each successful flush (and following steps) reopen a copy and compare (C02)
	Decode           bool // decode image with the independent decoder after each flush (C14)
	RefMon           bool // item reference count monitor (C15); forces CBAlloc|CBRef
	Churn            bool // force reuse of freed nodes before read-backs (C10)
	TrackValues      bool // C19 value-range monitor
	KeepLog          bool
	ScanBound        bool // bound root-scan iterations through the rootscan.iter hook
}

// Violation is the first failure observed in a case.
type Violation struct {
	Sig    string
	Detail string
	Step   int
	Op     string
}

// Snap is an open snapshot with its model.
type Snap struct {
	S      *gkvlite.Store
	M      *model.State
	H      map[string]*gkvlite.Collection
	Closed bool
	// durable stack as of creation, for snapshot-side FlushRevert
	Flushes []model.Flushed
	Size    int64
}

// Env is one store under test plus everything shadowing it.
type Env struct {
	Cfg   Config
	Name  string
	F     *vfile.File
	S     *gkvlite.Store
	H     map[string]*gkvlite.Collection
	M     *model.Store
	Snaps []*Snap
	Pins  []*Pinned
	// Fault is the fault armed for the operation in progress (C07); FaultOp
	// names the operation it fired in.
	Fault              *vfile.Fault
	FaultOp            string
	nestedEvictCounted bool
	// NoRootsStop is set when a re-open legitimately failed because no Flush
	// ever completed and the file only holds the debris of a failed one.
	NoRootsStop bool
	// DstFault is armed on the destination file of the next CopyTo.
	DstFault     *vfile.Fault
	LastDstCalls int
	// LastCopyDst is the destination file of the last successful CopyTo.
	LastCopyDst        *vfile.File
	LastCopyFlushEvery int
	// OpenedDespiteFault is the store NewStore returned although the file failed during the open.
	OpenedDespiteFault *gkvlite.Store
	// Stale holds the handles (snapshot collections) whose version has been
	// superseded by a later mutation of the original; StaleNames the same for
	// suspended visits.  Used to attribute item loads (C15 known finding).
	Stale     map[*gkvlite.Collection]bool
	cbNilItem int64    // reference callbacks invoked with a nil item
	cbN       [9]int64 // callback invocation counters (atomic: callbacks may run on gkvlite's iterator goroutines)
	RC        *RefMon
	Stats     map[string]int64
	Viol      *Violation
	Step      int
	CurOp     string
	Trace     []string // op descriptions (bounded)
	// extra stores whose handles are also read back (C10)
	Peers []*Env
	// Cmps fixes the comparator of every collection name for the whole case
	// (supplied again through KeyCompareForCollection on every open).
	Cmps            map[string]model.Cmp
	lastFlushStep   int
	lastSeq         []TreeItem
	depthCache      map[string]int
	depthEpoch      int64
	depthName       string
	swapBad         int64
	touching        bool
	touchesThisStep int
	touchedStep     int
	touches         int64
	replaces        int64
	// DstPre, when set, makes the next CopyTo copy into a file that already holds this store.
	DstPre *DstPre
	// LastCopyModel is the state the destination of the last successful CopyTo must hold.
	LastCopyModel *model.State
	// Loading is the model state a reload in progress (open, FlushRevert) is loading; nil otherwise.
	Loading          *model.State
	nilDefaultCmp    bool
	cmpOutsideReload int64
	churnStore       *gkvlite.Store
	churnN           int
	ScanIters        int64
	closedStores     []*gkvlite.Store
}

// NewEnv creates a store (file-backed unless cfg.MemOnly).
func NewEnv(name string, cfg Config) *Env { return NewEnvCmps(name, cfg, nil) }

// NewEnvCmps is NewEnv with per-name comparators.
func NewEnvCmps(name string, cfg Config, cmps map[string]model.Cmp) *Env {
	if cfg.CB&CBSwap != 0 {
		cfg.Decode, cfg.Walk = false, false // both verify the byte aggregates, which CBSwap leaves undefined
	}
	if cfg.RefMon {
		cfg.CB |= CBRef
		if !cfg.RefOnly {
			cfg.CB |= CBAlloc
		}
	}
	e := &Env{Cfg: cfg, Name: name, H: map[string]*gkvlite.Collection{}, M: model.NewStore(),
		Stats: map[string]int64{}, Cmps: cmps}
	e.nilDefaultCmp = gen.MixS(name)&1 == 1
	if cfg.RefMon {
		e.RC = NewRefMon()
		e.RC.Recycle = cfg.Recycle
		e.RC.BaseOne = cfg.RefOnly
	}
	if !cfg.MemOnly {
		e.F = vfile.New(name)
		e.F.KeepLog = cfg.KeepLog
		e.F.OpenTag = "Open"
		if cfg.TrackValues {
			e.F.TrackValues = true
			e.F.KeyOnlyTags = KeyOnlyTags
		}
	}
	e.open()
	return e
}

// KeyOnlyTags are the API tags of operations that must never read values.
var KeyOnlyTags = map[string]bool{
	"GetItem(k)": true, "Min(k)": true, "Max(k)": true, "VisitAsc(k)": true, "VisitDesc(k)": true,
	"IterAsc(k)": true, "IterDesc(k)": true, "Exist": true, "Len": true, "Set": true, "Delete": true,
	"snap:GetItem(k)": true, "snap:Min(k)": true, "snap:Max(k)": true, "snap:VisitAsc(k)": true,
	"snap:VisitDesc(k)": true, "snap:Exist": true, "snap:Len": true,
}

func (e *Env) Failf(sig, format string, a ...interface{}) {
	if e.Viol != nil {
		return
	}
	e.Viol = &Violation{Sig: sig, Detail: fmt.Sprintf(format, a...), Step: e.Step, Op: e.CurOp}
}

func (e *Env) Failed() bool { return e.Viol != nil }

func (e *Env) tag(t string) {
	if e.F != nil {
		e.F.SetTag(t)
	}
}

// guard runs fn, converting a panic into a violation.
func (e *Env) guard(what string, fn func()) {
	defer func() {
		if r := recover(); r != nil {
			if sb, ok := r.(scanBound); ok {
				e.Failf("termination/root-scan-exceeds-logical-bound/"+what,
					"root scan performed %d iterations on a file of %d bytes (bound %d): the scan does not terminate",
					sb.iters, sb.size, sb.size+2)
				return
			}
			st := string(debug.Stack())
			e.Failf("panic/"+what+"/"+panicClass(r), "panic in %s: %v\n%s", what, r, trimStack(st))
		}
	}()
	fn()
}

type scanBound struct{ iters, size int64 }

func panicClass(r interface{}) string {
	s := fmt.Sprint(r)
	switch {
	case strings.Contains(s, "nil pointer"):
		return "nil-deref"
	case strings.Contains(s, "index out of range"), strings.Contains(s, "slice bounds"):
		return "bounds"
	case strings.Contains(s, "double free"):
		return "double-free"
	case strings.Contains(s, "chain already taken"):
		return "chain-taken"
	}
	if len(s) > 40 {
		s = s[:40]
	}
	return strings.Map(func(r rune) rune {
		if r >= 'a' && r <= 'z' || r >= 'A' && r <= 'Z' {
			return r
		}
		return '-'
	}, s)
}

func trimStack(s string) string {
	lines := strings.Split(s, "\n")
	var out []string
	for _, l := range lines {
		if strings.Contains(l, "gkvlite") || strings.Contains(l, "verif/") {
			out = append(out, strings.TrimSpace(l))
		}
		if len(out) > 24 {
			break
		}
	}
	return strings.Join(out, "\n")
}

// ---------------------------------------------------------------------------
// callbacks

func (e *Env) callbacks() gkvlite.StoreCallbacks {
	var cb gkvlite.StoreCallbacks
	m := e.Cfg.CB
	if m&CBAlloc != 0 {
		cb.ItemAlloc = func(c *gkvlite.Collection, keyLength uint32) *gkvlite.Item {
			it := &gkvlite.Item{Key: make([]byte, keyLength)}
			if e.RC != nil {
				e.RC.Alloc(it)
			}
			atomic.AddInt64(&e.cbN[0], 1)
			return it
		}
	}
	if m&CBRef != 0 {
		cb.ItemAddRef = func(c *gkvlite.Collection, i *gkvlite.Item) {
			if i == nil {
				atomic.AddInt64(&e.cbNilItem, 1)
			}
			if e.RC != nil {
				e.RC.AddRef(i)
			}
			atomic.AddInt64(&e.cbN[1], 1)
		}
		cb.ItemDecRef = func(c *gkvlite.Collection, i *gkvlite.Item) {
			if i == nil {
				atomic.AddInt64(&e.cbNilItem, 1)
			}
			if e.RC != nil {
				e.RC.DecRef(i)
			}
			atomic.AddInt64(&e.cbN[2], 1)
		}
	}
	if m&CBVal != 0 {
		cb.ItemValLength = func(c *gkvlite.Collection, i *gkvlite.Item) int {
			atomic.AddInt64(&e.cbN[3], 1)
			return len(i.Val)
		}
		cb.ItemValWrite = func(c *gkvlite.Collection, i *gkvlite.Item, w io.WriterAt, offset int64) error {
			atomic.AddInt64(&e.cbN[4], 1)
			v := i.Val
			chunk := len(v)/3 + 1
			if len(v) == 0 {
				_, err := w.WriteAt(v, offset)
				return err
			}
			for pos := 0; pos < len(v); pos += chunk {
				end := pos + chunk
				if end > len(v) {
					end = len(v)
				}
				if _, err := w.WriteAt(v[pos:end], offset+int64(pos)); err != nil {
					return err
				}
			}
			return nil
		}
		cb.ItemValRead = func(c *gkvlite.Collection, i *gkvlite.Item, r io.ReaderAt, offset int64, valLength uint32) error {
			atomic.AddInt64(&e.cbN[5], 1)
			v := make([]byte, valLength)
			chunk := int(valLength)/2 + 1
			for pos := 0; pos < len(v); pos += chunk {
				end := pos + chunk
				if end > len(v) {
					end = len(v)
				}
				if _, err := r.ReadAt(v[pos:end], offset+int64(pos)); err != nil {
					return err
				}
			}
			i.Val = v
			return nil
		}
	}
	if m&CBValDouble != 0 {
		cb.ItemValLength = func(c *gkvlite.Collection, i *gkvlite.Item) int {
			atomic.AddInt64(&e.cbN[3], 1)
			return 2 * len(i.Val)
		}
		cb.ItemValWrite = func(c *gkvlite.Collection, i *gkvlite.Item, w io.WriterAt, offset int64) error {
			atomic.AddInt64(&e.cbN[4], 1)
			d := make([]byte, 2*len(i.Val))
			for k, x := range i.Val {
				d[2*k], d[2*k+1] = x, x
			}
			_, err := w.WriteAt(d, offset)
			return err
		}
		cb.ItemValRead = func(c *gkvlite.Collection, i *gkvlite.Item, r io.ReaderAt, offset int64, valLength uint32) error {
			atomic.AddInt64(&e.cbN[5], 1)
			d := make([]byte, valLength)
			if _, err := r.ReadAt(d, offset); err != nil {
				return err
			}
			v := make([]byte, valLength/2)
			for k := range v {
				v[k] = d[2*k]
			}
			i.Val = v
			return nil
		}
	}
	if m&CBBefore != 0 {
		cb.BeforeItemWrite = func(c *gkvlite.Collection, i *gkvlite.Item) (*gkvlite.Item, error) {
			atomic.AddInt64(&e.cbN[6], 1)
			return i, nil
		}
	}
	if m&CBAfter != 0 {
		cb.AfterItemRead = func(c *gkvlite.Collection, i *gkvlite.Item) (*gkvlite.Item, error) {
			atomic.AddInt64(&e.cbN[7], 1)
			return i, nil
		}
	}
	if m&CBSwap != 0 {
		cb.BeforeItemWrite = func(c *gkvlite.Collection, i *gkvlite.Item) (*gkvlite.Item, error) {
			atomic.AddInt64(&e.cbN[6], 1)
			t := swapSum(i.Key, i.Val)
			k := make([]byte, len(i.Key)) // the key is encoded at rest as well
			for j, b := range i.Key {
				k[j] = b ^ 0x5a
			}
			return &gkvlite.Item{Key: k, Priority: i.Priority, Val: append(append(make([]byte, 0, len(i.Val)+4), i.Val...), t[:]...)}, nil
		}
		cb.AfterItemRead = func(c *gkvlite.Collection, i *gkvlite.Item) (*gkvlite.Item, error) {
			atomic.AddInt64(&e.cbN[7], 1)
			for j := range i.Key {
				i.Key[j] ^= 0x5a
			}
			if i.Val == nil {
				return i, nil // loaded without its value
			}
			v, ok := SwapStrip(i.Key, i.Val)
			if !ok {
				atomic.AddInt64(&e.swapBad, 1)
				return i, fmt.Errorf("harness codec: the %d value bytes read back for key %s do not carry the checksum they were written with", len(i.Val), kvString(i.Key))
			}
			i.Val = v
			return i, nil
		}
	}
	if m&CBTouchOther != 0 {
		inner := cb.BeforeItemWrite
		cb.BeforeItemWrite = func(c *gkvlite.Collection, i *gkvlite.Item) (*gkvlite.Item, error) {
			if e.touchedStep != e.Step {
				e.touchesThisStep = 0
			}
			if !e.touching && e.S != nil && (e.touchedStep != e.Step || (e.Cfg.TouchMany && e.touchesThisStep < 4)) && e.Fault == nil { // (not while a fault is armed: the harness call would consume or swallow it)
				e.touching = true
				e.touchedStep = e.Step
				e.touchesThisStep++
				for _, n := range e.M.Live.Names() {
					oc, mc := e.H[n], e.M.Live.Colls[n]
					if n == c.Name() || oc == nil || len(mc.Items) == 0 {
						continue
					}
					if e.Cfg.TouchMany && n < c.Name() {
						continue // (written already: the Flush is done with the version it pinned)
					}
					srt := mc.Sorted()
					reps := 1
					if e.Cfg.TouchMany {
						// several new versions during one Flush, each replacing another path of the tree
						reps = 3
					}
					for rep := 0; rep < reps; rep++ {
						kv := srt[0]
						if e.Cfg.TouchMany {
							kv = srt[(int(atomic.LoadInt64(&e.touches))*7+len(srt)/2)%len(srt)]
						}
						if oc.SetItem(&gkvlite.Item{Key: append([]byte{}, kv.Key...), Val: append(make([]byte, 0, len(kv.Val)), kv.Val...), Priority: kv.Prio}) == nil {
							atomic.AddInt64(&e.touches, 1)
						}
					}
					break
				}
				e.touching = false
			}
			if inner != nil {
				return inner(c, i)
			}
			return i, nil
		}
	}
	if m&CBReplaceOther != 0 {
		inner := cb.BeforeItemWrite
		cb.BeforeItemWrite = func(c *gkvlite.Collection, i *gkvlite.Item) (*gkvlite.Item, error) {
			if !e.touching && e.S != nil && e.touchedStep != e.Step && e.Fault == nil && e.OpenPins() == 0 {
				e.touching = true
				e.touchedStep = e.Step
				for _, n := range e.M.Live.Names() {
					mc := e.M.Live.Colls[n]
					if n == c.Name() || e.H[n] == nil {
						continue
					}
					var nc *gkvlite.Collection
					if mc.Cmp == model.CmpBytes || mc.Cmp == "" {
						nc = e.S.SetCollection(n, nil)
					} else {
						nc = e.S.SetCollection(n, mc.Cmp.Func())
					}
					if nc != nil {
						e.H[n] = nc
						atomic.AddInt64(&e.replaces, 1)
					}
					break
				}
				e.touching = false
			}
			if inner != nil {
				return inner(c, i)
			}
			return i, nil
		}
	}
	// The comparator callback is needed whenever some collection of the case
	// uses a custom comparator; with CBCmp it is installed unconditionally.
	needCmp := m&CBCmp != 0
	for _, c := range e.Cmps {
		if c != model.CmpBytes && c != "" {
			needCmp = true
		}
	}
	if needCmp && !e.Cfg.NoCmpCallback {
		cb.KeyCompareForCollection = func(name string) gkvlite.KeyCompare {
			atomic.AddInt64(&e.cbN[8], 1)
			// "the default is bytes.Compare": in half of the environments the callback answers nil
			// for a collection in the default order, as its documentation allows
			fn := func(c model.Cmp) gkvlite.KeyCompare {
				if (c == model.CmpBytes || c == "") && e.nilDefaultCmp {
					return nil
				}
				return c.Func()
			}
			// The callback is documented to be consulted when a store is (re)loaded from the file,
			// and answers for the state being loaded: the comparator the collection of that name
			// has in it.  Consulted at any other time it still answers by name for what is on the
			// file - the last durable state - which need not be the comparator of a collection
			// that was re-created since.
			st := e.Loading
			if st == nil {
				atomic.AddInt64(&e.cmpOutsideReload, 1)
				if len(e.M.Flushes) > 0 {
					if mc, ok := e.M.Durable().Colls[name]; ok && mc.Cmp != "" {
						return fn(mc.Cmp)
					}
				}
			} else if mc, ok := st.Colls[name]; ok && mc.Cmp != "" {
				return fn(mc.Cmp)
			}
			if mc, ok := e.M.Live.Colls[name]; ok && mc.Cmp != "" {
				return fn(mc.Cmp)
			}
			if c, ok := e.Cmps[name]; ok {
				return fn(c)
			}
			return fn(model.CmpBytes)
		}
	}
	return cb
}

// ---------------------------------------------------------------------------
// open / reopen

func (e *Env) open() {
	var s *gkvlite.Store
	var err error
	e.Loading = e.M.Durable()
	defer func() { e.Loading = nil }()
	run := e.guard
	if e.Cfg.ScanBound && !e.Cfg.MemOnly {
		run = e.boundedScan
	}
	run("NewStore", func() {
		if e.Cfg.MemOnly {
			s, err = gkvlite.NewStoreEx(nil, e.callbacks())
		} else {
			e.tag("Open")
			s, err = gkvlite.NewStoreEx(e.F, e.callbacks())
			e.tag("")
		}
	})
	if e.Failed() {
		return
	}
	if e.FaultFired() {
		k := e.Fault.FiredKind.String()
		e.Stats["fault.fired/op=Open/"+k]++
		e.FaultOp = "Open"
		if err == nil {
			// success although a read on its path failed: it must not show wrong or older data
			e.OpenedDespiteFault = s
		}
		return
	}
	if err != nil && !e.Cfg.MemOnly && len(e.M.Flushes) == 0 && e.F.Size() > 0 && e.F.DurableEnd() == 0 {
		// documented alternative: no Flush ever completed, the file holds only debris
		e.NoRootsStop = true
		e.Stats["open.no-roots-error-accepted"]++
		return
	}
	if err != nil || s == nil {
		e.Failf("open/unexpected-error", "NewStore failed on a file the store itself wrote: %v", err)
		return
	}
	e.S = s
	e.H = map[string]*gkvlite.Collection{}
	e.Stats["op.Open"]++
	// names must match the durable model
	e.checkNames("after-open", s, e.M.Live)
	for _, n := range s.GetCollectionNames() {
		e.H[n] = s.GetCollection(n)
	}
}

// Reopen abandons (optionally closes) the store and opens the file again.
func (e *Env) Reopen(closeOld bool) {
	if e.Cfg.MemOnly {
		return
	}
	if !e.begin("Reopen(close=%v)", closeOld) {
		return
	}
	e.ResumeAll()
	for _, sn := range e.Snaps {
		e.closeSnap(sn)
	}
	e.Snaps = nil
	old := e.S
	if closeOld && old != nil {
		e.guard("Close", func() { old.Close() })
	} else if old != nil {
		e.closedStores = append(e.closedStores, old) // closed at end of life for the ref-count balance
	}
	e.M.Reopen()
	e.S = nil
	e.H = map[string]*gkvlite.Collection{}
	e.open()
	e.Stats["op.Reopen"]++
}

func (e *Env) checkNames(label string, s *gkvlite.Store, m *model.State) {
	got := s.GetCollectionNames()
	want := m.Names()
	if !sort.StringsAreSorted(got) {
		e.Failf("names/not-sorted/"+label, "GetCollectionNames not sorted: %q", got)
		return
	}
	if len(got) != len(want) {
		e.Failf("names/mismatch/"+label, "GetCollectionNames = %q, model = %q", got, want)
		return
	}
	for i := range got {
		if got[i] != want[i] {
			e.Failf("names/mismatch/"+label, "GetCollectionNames = %q, model = %q", got, want)
			return
		}
	}
}

// ---------------------------------------------------------------------------
// read-back of one handle against one model collection

// ReadMode selects what CheckColl reads.
type ReadMode uint

const (
	RTotals ReadMode = 1 << iota
	RAscVal
	RAscKey
	RDescVal
	RDescKey
	RMinMax
	RGets
	RAll = RTotals | RAscVal | RDescKey | RMinMax | RGets
)

func kvString(k []byte) string {
	if len(k) > 24 {
		return fmt.Sprintf("%q..(%d)", k[:24], len(k))
	}
	return fmt.Sprintf("%q", k)
}

// CheckColl compares the complete contents seen through c with m.
func (e *Env) CheckColl(label string, st *gkvlite.Store, c *gkvlite.Collection, m *model.Coll, mode ReadMode, tagPrefix string) {
	if e.Failed() {
		return
	}
	if c == nil {
		e.Failf("handle/nil/"+label, "collection handle is nil but model has the collection")
		return
	}
	want := m.Sorted()
	if e.RC != nil {
		if e.Stale[c] {
			e.RC.SetTag("stale-version-read")
		} else {
			e.RC.SetTag("Readback")
		}
	}
	e.guard("readback", func() {
		if mode&RTotals != 0 {
			e.tag(tagPrefix + "Totals")
			n, b, err := c.GetTotals()
			wn, wb := e.Totals(m)
			if err != nil {
				e.Failf("readback/totals-error/"+label, "GetTotals: %v", err)
				return
			}
			if e.Cfg.CB&CBSwap != 0 {
				b = wb
			}
			if n != wn || b != wb {
				e.Failf("readback/totals-mismatch/"+label, "GetTotals = (%d,%d), model (%d,%d)", n, b, wn, wb)
				return
			}
		}
		for _, vm := range []struct {
			bit     ReadMode
			withVal bool
			desc    bool
		}{{RAscVal, true, false}, {RAscKey, false, false}, {RDescVal, true, true}, {RDescKey, false, true}} {
			if mode&vm.bit == 0 {
				continue
			}
			var got []model.KV
			visitor := func(i *gkvlite.Item) bool {
				if e.RC != nil {
					e.RC.CheckHandedOut(i, "visitor")
				}
				kv := model.KV{Key: append([]byte{}, i.Key...), Prio: i.Priority}
				if vm.withVal {
					if i.Val == nil {
						kv.Val = nil
					} else {
						kv.Val = append([]byte{}, i.Val...)
					}
				}
				got = append(got, kv)
				return true
			}
			var err error
			exp := want
			if vm.desc {
				t := "VisitDesc(k)"
				if vm.withVal {
					t = "VisitDesc(kv)"
				}
				e.tag(tagPrefix + t)
				// descend visits keys < target: use a target above every key
				target := aboveAll(m)
				err = c.VisitItemsDescend(target, vm.withVal, visitor)
				exp = m.Descend(target)
			} else {
				t := "VisitAsc(k)"
				if vm.withVal {
					t = "VisitAsc(kv)"
				}
				e.tag(tagPrefix + t)
				target := belowAll(m)
				err = c.VisitItemsAscend(target, vm.withVal, visitor)
				exp = m.Ascend(target)
			}
			if err != nil {
				e.Failf("readback/visit-error/"+label, "visit: %v", err)
				return
			}
			if d := diffKVs(got, exp, vm.withVal); d != "" {
				e.Failf("readback/contents-mismatch/"+label, "full visit (desc=%v withValue=%v): %s", vm.desc, vm.withVal, d)
				return
			}
		}
		if mode&RMinMax != 0 {
			for _, mx := range []bool{false, true} {
				var it *gkvlite.Item
				var err error
				if mx {
					e.tag(tagPrefix + "Max(k)")
					it, err = c.MaxItem(false)
				} else {
					e.tag(tagPrefix + "Min(k)")
					it, err = c.MinItem(false)
				}
				if err != nil {
					e.Failf("readback/minmax-error/"+label, "Min/Max: %v", err)
					return
				}
				if len(want) == 0 {
					if it != nil {
						e.Failf("readback/minmax-mismatch/"+label, "Min/Max on empty collection returned %s", kvString(it.Key))
						return
					}
					continue
				}
				w := want[0]
				if mx {
					w = want[len(want)-1]
				}
				if it == nil || !bytes.Equal(it.Key, w.Key) || it.Priority != w.Prio {
					e.Failf("readback/minmax-mismatch/"+label, "max=%v: got %v want key %s prio %d", mx, itemStr(it), kvString(w.Key), w.Prio)
					return
				}
				e.release(st, c, it, "Min/Max")
			}
		}
		if mode&RGets != 0 {
			e.tag(tagPrefix + "GetItem(kv)")
			for _, w := range want {
				it, err := c.GetItem(w.Key, true)
				if err != nil {
					e.Failf("readback/get-error/"+label, "GetItem(%s): %v", kvString(w.Key), err)
					return
				}
				if it == nil || !bytes.Equal(it.Key, w.Key) || it.Priority != w.Prio || it.Val == nil || !bytes.Equal(it.Val, w.Val) {
					e.Failf("readback/get-mismatch/"+label, "GetItem(%s): got %v want prio %d val %s", kvString(w.Key), itemStr(it), w.Prio, kvString(w.Val))
					return
				}
				e.release(st, c, it, "GetItem")
			}
		}
		e.tag("")
	})
	e.Stats["readbacks"]++
}

func itemStr(i *gkvlite.Item) string {
	if i == nil {
		return "<nil>"
	}
	v := "nil"
	if i.Val != nil {
		v = kvString(i.Val)
	}
	return fmt.Sprintf("{key %s prio %d val %s}", kvString(i.Key), i.Priority, v)
}

// release drops the caller's reference on an item returned by a lookup.
func (e *Env) release(st *gkvlite.Store, c *gkvlite.Collection, it *gkvlite.Item, what string) {
	if it == nil {
		return
	}
	if e.RC != nil {
		e.RC.CheckHandedOut(it, what)
	}
	st.ItemDecRef(c, it)
}

func belowAll(m *model.Coll) []byte {
	// a key that compares <= every valid key under every comparator we use
	switch {
	case m.Cmp == model.CmpRev:
		return bytes.Repeat([]byte{0xff}, 70000)
	}
	return []byte{} // (the empty key is a prefix of every key: smallest under bytes, lenlex and rot:k)
}

func aboveAll(m *model.Coll) []byte {
	switch {
	case m.Cmp == model.CmpRev:
		return []byte{}
	case strings.HasPrefix(string(m.Cmp), "rot:"):
		k, _ := strconv.Atoi(string(m.Cmp)[4:])
		return bytes.Repeat([]byte{byte(255 - k)}, 70000) // the byte that maps to 0xff after the rotation
	}
	return bytes.Repeat([]byte{0xff}, 70000)
}

func diffKVs(got, want []model.KV, withVal bool) string {
	if len(got) != len(want) {
		return fmt.Sprintf("delivered %d items %s, model has %d %s", len(got), keysOf(got), len(want), keysOf(want))
	}
	for i := range got {
		if !bytes.Equal(got[i].Key, want[i].Key) {
			return fmt.Sprintf("position %d: key %s, model %s (got %s want %s)", i, kvString(got[i].Key), kvString(want[i].Key), keysOf(got), keysOf(want))
		}
		if got[i].Prio != want[i].Prio {
			return fmt.Sprintf("key %s: priority %d, model %d", kvString(got[i].Key), got[i].Prio, want[i].Prio)
		}
		if withVal {
			if got[i].Val == nil {
				return fmt.Sprintf("key %s: value nil although requested", kvString(got[i].Key))
			}
			if !bytes.Equal(got[i].Val, want[i].Val) {
				return fmt.Sprintf("key %s: value %s, model %s", kvString(got[i].Key), kvString(got[i].Val), kvString(want[i].Val))
			}
		}
	}
	return ""
}

func keysOf(kvs []model.KV) string {
	var sb strings.Builder
	sb.WriteString("[")
	for i, kv := range kvs {
		if i > 12 {
			sb.WriteString(" ...")
			break
		}
		if i > 0 {
			sb.WriteString(" ")
		}
		sb.WriteString(kvString(kv.Key))
	}
	sb.WriteString("]")
	return sb.String()
}

// ReadbackAll reads every open handle of this env (original and snapshots).
func (e *Env) ReadbackAll(mode ReadMode) {
	if e.Cfg.Churn {
		e.churn()
	}
	if e.S != nil {
		for _, n := range e.M.Live.Names() {
			e.CheckColl("orig", e.S, e.H[n], e.M.Live.Colls[n], mode, "")
		}
	}
	for i, sn := range e.Snaps {
		if sn.Closed {
			continue
		}
		for _, n := range sn.M.Names() {
			e.CheckColl(fmt.Sprintf("snapshot"), sn.S, sn.H[n], sn.M.Colls[n], mode, "snap:")
		}
		_ = i
	}
}

// churn allocates and releases enough nodes in a scratch store to reuse
// anything that was (wrongly) put on the global free lists.
func (e *Env) churn() {
	if e.churnStore == nil {
		e.churnStore, _ = gkvlite.NewStore(nil)
	}
	// Every item goes into its own private collection: taking the node off
	// the free list without ever freeing one, so the free list really drains.
	n := int(freeNodesCount()) + 8
	if n > 20000 {
		n = 20000
	}
	for i := 0; i < n; i++ {
		e.churnN++
		k := []byte(fmt.Sprintf("~churn~%d", e.churnN))
		c := e.churnStore.MakePrivateCollection(nil)
		_ = c.SetItem(&gkvlite.Item{Key: k, Val: k, Priority: int32(e.churnN & 0xffff)})
	}
	e.Stats["churn.inserts"] += int64(n)
}

func freeNodesCount() int64 { return int64(len(gkvlite.VerifFreeNodes())) }

// ---------------------------------------------------------------------------
// decoder / reopen checks

// CmpLookup returns comparator functions from a model state.
func CmpLookup(st *model.State) func(string) decoder.Compare {
	return func(name string) decoder.Compare {
		if c, ok := st.Colls[name]; ok {
			return decoder.Compare(c.Cmp.Func())
		}
		return bytes.Compare
	}
}

// CompareImage compares a decoded image with a model state.
func CompareImage(img *decoder.Image, st *model.State) string {
	want := st.Names()
	if len(img.Names) != len(want) {
		return fmt.Sprintf("decoded names %q, model %q", img.Names, want)
	}
	for i := range want {
		if img.Names[i] != want[i] {
			return fmt.Sprintf("decoded names %q, model %q", img.Names, want)
		}
	}
	for _, n := range want {
		var got []model.KV
		for _, it := range img.Colls[n].Items {
			got = append(got, model.KV{Key: it.Key, Val: it.Val, Prio: it.Prio})
		}
		if d := diffKVs(got, st.Colls[n].Sorted(), true); d != "" {
			return fmt.Sprintf("collection %q: %s", n, d)
		}
	}
	return ""
}

// DecodeCheck decodes the current image and compares with the durable model.
func (e *Env) DecodeCheck(label string) {
	if e.F == nil || e.Failed() || e.Cfg.CB&CBSwap != 0 {
		return // (the decoder verifies the byte aggregates, which CBSwap leaves undefined)
	}
	b := e.F.Bytes()
	dur := e.M.Durable()
	if len(e.M.Flushes) == 0 {
		return
	}
	img, err := decoder.Decode(b, int64(len(b)), CmpLookup(dur))
	if err != nil {
		e.Failf("decode/structural/"+label, "independent decoder rejects the file: %v", err)
		return
	}
	if e.Cfg.CB&CBValDouble != 0 {
		for _, c := range img.Colls { // the on-disk form of a value is the doubled one
			for i := range c.Items {
				v := c.Items[i].Val
				h := make([]byte, len(v)/2)
				for k := range h {
					h[k] = v[2*k]
				}
				c.Items[i].Val = h
			}
		}
	}
	if d := CompareImage(img, dur); d != "" {
		e.Failf("decode/state-mismatch/"+label, "independent decoder: %s", d)
		return
	}
	e.Stats["decodes"]++
}

// OpenCopyAndCompare opens a second store on a copy of the image and
// compares its complete state with st.
func OpenCopyAndCompare(e *Env, b []byte, st *model.State, label string) {
	if e.Failed() {
		return
	}
	f2 := vfile.FromBytes("copy", b)
	fl := []model.Flushed{{State: st, FileLen: int64(len(b))}}
	if len(e.M.Flushes) == 0 && len(st.Colls) == 0 {
		fl = nil // nothing was ever flushed
	}
	e2 := &Env{Cfg: Config{CB: e.Cfg.CB &^ (CBRef | CBAlloc), ScanBound: e.Cfg.ScanBound}, Name: "reopen-copy", F: f2, Cmps: e.Cmps, M: &model.Store{Live: st.Clone(), Flushes: fl},
		Stats: map[string]int64{}, H: map[string]*gkvlite.Collection{}}
	e2.open()
	if e2.NoRootsStop {
		e.Stats["reopen-compares"]++
		return
	}
	if !e2.Failed() {
		e2.ReadbackAll(RTotals | RAscVal | RMinMax)
	}
	if !e2.Failed() && len(f2.Violations) > 0 {
		e2.Failf(strings.SplitN(f2.Violations[0], ": ", 2)[0], "%s", f2.Violations[0])
	}
	if e2.Failed() {
		e.Failf("reopen/"+e2.Viol.Sig+"/"+label, "second store opened on a copy of the file: %s", e2.Viol.Detail)
	}
	e.Stats["reopen-compares"]++
}

// ---------------------------------------------------------------------------
// per-step monitors

// AfterStep runs the always-on monitors.
func (e *Env) AfterStep() {
	if n := atomic.LoadInt64(&e.replaces); n > 0 {
		e.Stats["other-collection-replaced-during-flush"] = n
	}
	if n := atomic.LoadInt64(&e.touches); n > 0 {
		e.Stats["other-collection-touched-during-flush"] = n
	}
	if n := atomic.LoadInt64(&e.cmpOutsideReload); n > 0 {
		e.Stats["cmp-callback-outside-reload"] = n
	}
	if e.Failed() {
		return
	}
	if e.F != nil && len(e.F.Violations) > 0 {
		v := e.F.Violations[0]
		parts := strings.SplitN(v, ": ", 2)
		e.Failf(parts[0], "%s", v)
		return
	}
	if n := atomic.LoadInt64(&e.cbNilItem); n > 0 {
		e.Failf("callbacks/reference-callback-called-with-nil-item", "ItemAddRef/ItemDecRef was invoked %d time(s) with a nil item", n)
		return
	}
	if e.RC != nil {
		if v := e.RC.Violation(); v != "" {
			parts := strings.SplitN(v, ": ", 2)
			e.Failf(parts[0], "%s", v)
			return
		}
	}
	if e.Cfg.Walk {
		e.WalkCheck()
	}
	if e.Failed() {
		return
	}
	if e.Cfg.ReopenCheck && e.F != nil && len(e.M.Flushes) > 0 && e.Step-e.lastFlushStep <= 6 {
		OpenCopyAndCompare(e, e.F.Bytes(), e.M.Durable(), "after-flush")
	}
	if e.Cfg.ReadbackK > 0 && e.Step%e.Cfg.ReadbackK == 0 {
		e.ReadbackAll(RAll)
		for _, p := range e.Peers {
			if e.Failed() {
				break
			}
			p.ReadbackAll(RAll)
			if p.Failed() {
				e.Failf("peer/"+p.Viol.Sig, "handle of another store of the process (%s): %s", p.Name, p.Viol.Detail)
			}
		}
	}
}

// CBNames names the callback counters.
var CBNames = []string{"ItemAlloc", "ItemAddRef", "ItemDecRef", "ItemValLength", "ItemValWrite", "ItemValRead", "BeforeItemWrite", "AfterItemRead", "KeyCompareForCollection"}

// CBCounts returns the callback invocation counters.
func (e *Env) CBCounts() map[string]int64 {
	res := map[string]int64{}
	for i, n := range CBNames {
		if v := atomic.LoadInt64(&e.cbN[i]); v != 0 {
			res["cb."+n] = v
		}
	}
	return res
}

// RetryOpen opens the file again after a failed open.
func (e *Env) RetryOpen() {
	if e.S == nil && !e.Failed() {
		e.open()
	}
}

// NewEnvOnImage opens a store on a copy of img; st is the state the image
// must show (anyFlush=false: no flush ever completed).
func NewEnvOnImage(name string, cfg Config, cmps map[string]model.Cmp, img []byte, st *model.State, anyFlush bool) *Env {
	if cfg.CB&CBSwap != 0 {
		cfg.Decode, cfg.Walk = false, false
	}
	e := &Env{Cfg: cfg, Name: name, H: map[string]*gkvlite.Collection{}, Stats: map[string]int64{}, Cmps: cmps}
	e.M = &model.Store{Live: st.Clone()}
	if anyFlush {
		e.M.Flushes = []model.Flushed{{State: st.Clone(), FileLen: int64(len(img))}}
	}
	e.F = vfile.FromBytes(name, img)
	e.F.OpenTag = "Open"
	e.F.KeepLog = cfg.KeepLog
	e.open()
	return e
}

// DstPre describes the pre-existing contents of a CopyTo destination file.
type DstPre struct {
	Img   []byte
	State *model.State
}
