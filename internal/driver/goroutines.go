package driver

import (
	"runtime"
	"strings"
	"sync"
	"time"
)

// IterProducers returns the number of live goroutines that are inside
// gkvlite's iterator producer function, and their stacks.
var stackBuf = make([]byte, 1<<16)
var stackMu sync.Mutex

func IterProducers() (int, string) {
	stackMu.Lock()
	defer stackMu.Unlock()
	var buf []byte
	for {
		n := runtime.Stack(stackBuf, true)
		if n < len(stackBuf) {
			buf = stackBuf[:n]
			break
		}
		stackBuf = make([]byte, 2*len(stackBuf))
	}
	cnt := 0
	var stacks []string
	for _, g := range strings.Split(string(buf), "\n\n") {
		if strings.Contains(g, "gkvlite.(*Collection).iterate(") || strings.Contains(g, "gkvlite.(*Collection).iteratorVisitor") {
			cnt++
			stacks = append(stacks, g)
		}
	}
	return cnt, strings.Join(stacks, "\n\n")
}

// WaitIterProducers waits until no iterator producer goroutine is left.  It
// yields the processor first (producers exit within microseconds once the
// consumer is done); the wall-clock limit is only a backstop.  It returns the
// stacks of the producers that are still alive, or "".
func WaitIterProducers(limit time.Duration) string { return WaitIterProducersAbove(0, limit) }

// WaitIterProducersAbove waits until at most base producer goroutines are
// left (base = the number that was alive before the iterator under test was
// created, e.g. the producer of an enclosing iterator loop).
func WaitIterProducersAbove(base int, limit time.Duration) string {
	for i := 0; i < 200; i++ {
		if n, _ := IterProducers(); n <= base {
			return ""
		}
		runtime.Gosched()
	}
	deadline := time.Now().Add(limit)
	for {
		n, st := IterProducers()
		if n <= base {
			return ""
		}
		if time.Now().After(deadline) {
			return st
		}
		time.Sleep(time.Millisecond)
	}
}
