package driver

import (
	"bytes"
	"fmt"
	"strings"
	"time"

	"github.com/cbehopkins/gkvlite"

	"verif/internal/model"
	"verif/internal/vfile"
)

func (e *Env) begin(format string, a ...interface{}) bool {
	if e.Failed() || e.NoRootsStop {
		return false // (NoRootsStop: the file legitimately could not be opened; the case ends there)
	}
	e.Step++
	e.CurOp = fmt.Sprintf(format, a...)
	if len(e.Trace) < 400 {
		e.Trace = append(e.Trace, e.CurOp)
	}
	if e.RC != nil {
		k := e.CurOp
		if i := strings.IndexByte(k, '('); i > 0 {
			k = k[:i]
		}
		if strings.Contains(e.CurOp, "snap=") && !strings.Contains(e.CurOp, "snap=-1") || strings.HasPrefix(e.CurOp, "Snap") {
			k += "@snapshot"
		}
		e.RC.SetTag(k)
	}
	return true
}

func (e *Env) coll(name string) (*gkvlite.Collection, *model.Coll) {
	m := e.M.Live.Colls[name]
	c := e.H[name]
	if m == nil {
		return nil, nil
	}
	if c == nil {
		e.Failf("handle/nil", "no handle for collection %q that the model has", name)
		return nil, nil
	}
	return c, m
}

// SetItem stores an item (valid or not) and compares the outcome.
func (e *Env) SetItem(name string, key, val []byte, prio int32, useSet bool) {
	if !e.begin("Set(%q,%s,vlen=%d,prio=%d,useSet=%v)", name, kvString(key), len(val), prio, useSet) {
		return
	}
	c, m := e.coll(name)
	if c == nil {
		return
	}
	e.Stats["op.Set"]++
	valid := model.ValidItem(key, val, prio)
	var err error
	var it *gkvlite.Item
	ikey, ival := key, val
	if e.RC != nil && e.RC.Recycle {
		// the store gets buffers of its own: a recycling allocator overwrites them on release, and
		// the model keeps the originals
		if key != nil {
			ikey = append(make([]byte, 0, len(key)), key...)
		}
		if val != nil {
			ival = append(make([]byte, 0, len(val)), val...)
		}
	}
	e.guard("Set", func() {
		e.tag("Set")
		if useSet {
			err = c.Set(ikey, ival)
		} else {
			it = &gkvlite.Item{Key: ikey, Val: ival, Priority: prio}
			if e.RC != nil {
				e.RC.Alloc(it) // the application's own reference
			}
			err = c.SetItem(it)
			if e.RC != nil {
				e.RC.DecRef(it) // the application drops its reference after SetItem
			}
		}
		e.tag("")
	})
	if e.Failed() {
		return
	}
	if e.faultOutcome("Set", err, true) {
		return
	}
	if useSet {
		valid = model.ValidItem(key, val, 0)
	}
	if !valid {
		e.Stats["op.Set.invalid"]++
		if err == nil {
			e.Failf("set/invalid-item-accepted", "SetItem accepted an invalid item (key len %d nil=%v, val nil=%v, prio %d)", len(key), key == nil, val == nil, prio)
		}
		return
	}
	if err != nil {
		e.Failf("set/unexpected-error", "SetItem(%s): %v", kvString(key), err)
		return
	}
	if useSet {
		// learn the random priority that Set drew
		var got *gkvlite.Item
		e.guard("GetItem", func() { got, err = c.GetItem(key, false) })
		if e.Failed() {
			return
		}
		if err != nil || got == nil {
			e.Failf("set/lost", "GetItem right after Set(%s) returned %v, %v", kvString(key), got, err)
			return
		}
		if got.Priority < 0 {
			e.Failf("set/negative-priority", "Set stored priority %d", got.Priority)
			return
		}
		prio = got.Priority
		e.release(e.S, c, got, "GetItem")
	}
	if old, ok := m.Get(key); ok {
		switch {
		case prio < old.Prio:
			e.Stats["op.Set.overwrite-lower"]++
		case prio == old.Prio:
			e.Stats["op.Set.overwrite-equal"]++
		default:
			e.Stats["op.Set.overwrite-higher"]++
		}
	}
	m.Set(key, val, prio)
	e.markStale(name)
}

func (e *Env) Delete(name string, key []byte) {
	if !e.begin("Delete(%q,%s)", name, kvString(key)) {
		return
	}
	c, m := e.coll(name)
	if c == nil {
		return
	}
	e.Stats["op.Delete"]++
	var was bool
	var err error
	e.guard("Delete", func() {
		e.tag("Delete")
		was, err = c.Delete(key)
		e.tag("")
	})
	if e.Failed() {
		return
	}
	if e.faultOutcome("Delete", err, true) {
		return
	}
	if err != nil {
		e.Failf("delete/unexpected-error", "Delete(%s): %v", kvString(key), err)
		return
	}
	want := m.Delete(key)
	if want {
		e.Stats["op.Delete.present"]++
		e.markStale(name)
	}
	if was != want {
		e.Failf("delete/wrong-result", "Delete(%s) reported %v, model says present=%v", kvString(key), was, want)
	}
}

// handleFor resolves (store, collection, model, tag prefix) for the original (snap<0) or a snapshot.
func (e *Env) handleFor(snap int, name string) (*gkvlite.Store, *gkvlite.Collection, *model.Coll, string) {
	if snap < 0 {
		c, m := e.coll(name)
		return e.S, c, m, ""
	}
	if snap >= len(e.Snaps) || e.Snaps[snap].Closed {
		return nil, nil, nil, ""
	}
	sn := e.Snaps[snap]
	m := sn.M.Colls[name]
	if m == nil {
		return nil, nil, nil, ""
	}
	c := sn.H[name]
	if c == nil {
		e.Failf("handle/nil/snapshot", "snapshot has no handle for collection %q", name)
		return nil, nil, nil, ""
	}
	if e.RC != nil && e.Stale[c] {
		e.RC.SetTag("stale-version-read")
	}
	return sn.S, c, m, "snap:"
}

func (e *Env) Get(snap int, name string, key []byte) {
	if !e.begin("Get(snap=%d,%q,%s)", snap, name, kvString(key)) {
		return
	}
	_, c, m, tp := e.handleFor(snap, name)
	if c == nil {
		return
	}
	e.Stats["op.Get"]++
	var v []byte
	var err error
	e.guard("Get", func() {
		e.tag(tp + "Get")
		v, err = c.Get(key)
		e.tag("")
	})
	if e.Failed() {
		return
	}
	if e.faultOutcome("Get", err, true) {
		return
	}
	if err != nil {
		e.Failf("get/unexpected-error", "Get(%s): %v", kvString(key), err)
		return
	}
	w, ok := m.Get(key)
	if !ok {
		if v != nil {
			e.Failf("get/absent-key-found", "Get(%s) = %s for a key the model does not have", kvString(key), kvString(v))
		}
		return
	}
	e.Stats["op.Get.present"]++
	if v == nil || !bytes.Equal(v, w.Val) {
		e.Failf("get/wrong-value", "Get(%s) = %v (nil=%v), model %s", kvString(key), kvString(v), v == nil, kvString(w.Val))
	}
}

func (e *Env) GetItem(snap int, name string, key []byte, withValue bool) {
	if !e.begin("GetItem(snap=%d,%q,%s,%v)", snap, name, kvString(key), withValue) {
		return
	}
	st, c, m, tp := e.handleFor(snap, name)
	if c == nil {
		return
	}
	e.Stats["op.GetItem"]++
	var it *gkvlite.Item
	var err error
	e.guard("GetItem", func() {
		if withValue {
			e.tag(tp + "GetItem(kv)")
		} else {
			e.tag(tp + "GetItem(k)")
		}
		it, err = c.GetItem(key, withValue)
		e.tag("")
	})
	if e.Failed() {
		return
	}
	if e.faultOutcome("GetItem", err, true) {
		return
	}
	if err != nil {
		e.Failf("getitem/unexpected-error", "GetItem(%s): %v", kvString(key), err)
		return
	}
	w, ok := m.Get(key)
	if !ok {
		if it != nil {
			e.Failf("getitem/absent-key-found", "GetItem(%s) = %s for a key the model does not have", kvString(key), itemStr(it))
		}
		return
	}
	if it == nil || !bytes.Equal(it.Key, key) || it.Priority != w.Prio {
		e.Failf("getitem/wrong-item", "GetItem(%s) = %s, model prio %d", kvString(key), itemStr(it), w.Prio)
		return
	}
	if withValue && (it.Val == nil || !bytes.Equal(it.Val, w.Val)) {
		e.Failf("getitem/wrong-value", "GetItem(%s,true) = %s, model value %s", kvString(key), itemStr(it), kvString(w.Val))
		return
	}
	e.release(st, c, it, "GetItem")
}

func (e *Env) Exist(snap int, name string, key []byte) {
	if !e.begin("Exist(snap=%d,%q,%s)", snap, name, kvString(key)) {
		return
	}
	_, c, m, tp := e.handleFor(snap, name)
	if c == nil {
		return
	}
	e.Stats["op.Exist"]++
	var got bool
	e.guard("Exist", func() {
		e.tag(tp + "Exist")
		got = c.Exist(key)
		e.tag("")
	})
	if e.Failed() {
		return
	}
	if e.FaultFired() {
		_, want := m.Get(key)
		e.Stats["fault.fired/op=Exist"]++
		if got != want {
			e.Failf("C07/wrong-result-without-error/op=Exist/fault="+e.Fault.FiredKind.String(),
				"Exist(%s) answered %v for a key whose presence is %v while the file failed a %s: a wrong result with no way to report the error", kvString(key), got, want, e.Fault.FiredKind)
		}
		return
	}
	_, want := m.Get(key)
	if got != want {
		e.Failf("exist/wrong-result", "Exist(%s) = %v, model %v", kvString(key), got, want)
	}
}

func (e *Env) MinMax(snap int, name string, max, withValue bool) {
	if !e.begin("MinMax(snap=%d,%q,max=%v,%v)", snap, name, max, withValue) {
		return
	}
	st, c, m, tp := e.handleFor(snap, name)
	if c == nil {
		return
	}
	e.Stats["op.MinMax"]++
	var it *gkvlite.Item
	var err error
	e.guard("MinMax", func() {
		t := "Min"
		if max {
			t = "Max"
		}
		if withValue {
			t += "(kv)"
		} else {
			t += "(k)"
		}
		e.tag(tp + t)
		if max {
			it, err = c.MaxItem(withValue)
		} else {
			it, err = c.MinItem(withValue)
		}
		e.tag("")
	})
	if e.Failed() {
		return
	}
	if e.faultOutcome("MinMax", err, true) {
		return
	}
	if err != nil {
		e.Failf("minmax/unexpected-error", "Min/MaxItem: %v", err)
		return
	}
	s := m.Sorted()
	if len(s) == 0 {
		if it != nil {
			e.Failf("minmax/nonempty-on-empty", "Min/MaxItem on an empty collection returned %s", itemStr(it))
		}
		return
	}
	w := s[0]
	if max {
		w = s[len(s)-1]
	}
	if it == nil || !bytes.Equal(it.Key, w.Key) || it.Priority != w.Prio || (withValue && (it.Val == nil || !bytes.Equal(it.Val, w.Val))) {
		e.Failf("minmax/wrong-item", "max=%v withValue=%v: got %s, model key %s prio %d", max, withValue, itemStr(it), kvString(w.Key), w.Prio)
		return
	}
	e.release(st, c, it, "Min/MaxItem")
}

func (e *Env) TotalsOp(snap int, name string) {
	if !e.begin("Totals(snap=%d,%q)", snap, name) {
		return
	}
	_, c, m, tp := e.handleFor(snap, name)
	if c == nil {
		return
	}
	e.Stats["op.Totals"]++
	var n, b uint64
	var err error
	e.guard("GetTotals", func() {
		e.tag(tp + "Totals")
		n, b, err = c.GetTotals()
		e.tag("")
	})
	if e.Failed() {
		return
	}
	if e.faultOutcome("Totals", err, true) {
		return
	}
	wn, wb := e.Totals(m)
	if e.Cfg.CB&CBSwap != 0 {
		b = wb
	}
	if err != nil || n != wn || b != wb {
		e.Failf("totals/wrong", "GetTotals = (%d,%d,%v), model (%d,%d)", n, b, err, wn, wb)
	}
}

// VisitKind selects a visiting API.
type VisitKind int

const (
	VAsc VisitKind = iota
	VDesc
	VAscEx
	VDescEx
	VIterAsc
	VIterDesc
)

func (k VisitKind) Desc() bool { return k == VDesc || k == VDescEx || k == VIterDesc }

// Visit performs a range visit that stops after `stop` deliveries
// (stop < 0: never) and compares the delivered sequence with the model.
func (e *Env) Visit(snap int, name string, kind VisitKind, target []byte, withValue bool, stop int) {
	if !e.begin("Visit(snap=%d,%q,kind=%d,target=%s,%v,stop=%d)", snap, name, kind, kvString(target), withValue, stop) {
		return
	}
	_, c, m, tp := e.handleFor(snap, name)
	if c == nil {
		return
	}
	e.Stats["op.Visit"]++
	var exp []model.KV
	if kind.Desc() {
		exp = m.Descend(target)
	} else {
		exp = m.Ascend(target)
	}
	if stop >= 0 && len(exp) > stop+1 {
		exp = exp[:stop+1]
	}
	got, depths, err := e.rawVisit(c, kind, target, withValue, stop, tp)
	if e.Failed() {
		return
	}
	if e.faultOutcome("Visit", err, true) {
		return
	}
	if err != nil {
		e.Failf("visit/unexpected-error", "visit: %v", err)
		return
	}
	if d := diffKVs(got, exp, withValue); d != "" {
		e.Failf(fmt.Sprintf("visit/wrong-sequence/kind=%d", kind), "target %s withValue=%v stop=%d: %s", kvString(target), withValue, stop, d)
		return
	}
	if depths != nil && e.Cfg.Walk && snap < 0 {
		// introspected true depth (also valid with tied or lowered priorities)
		if td := e.TrueDepths(name); td != nil {
			for i, kv := range got {
				if td[string(kv.Key)] != depths[i] {
					e.Failf("visit/wrong-depth", "key %s reported at depth %d, the node's true depth is %d", kvString(kv.Key), depths[i], td[string(kv.Key)])
					return
				}
			}
			e.Stats["visit.true-depths-checked"] += int64(len(got))
		}
		if e.Failed() {
			return
		}
	}
	if depths != nil && !m.HeapOff {
		if canon, ok := m.Depths(); ok {
			for i, kv := range got {
				if canon[string(kv.Key)] != depths[i] {
					e.Failf("visit/wrong-depth", "key %s reported at depth %d, true depth %d", kvString(kv.Key), depths[i], canon[string(kv.Key)])
					return
				}
			}
			e.Stats["visit.depths-checked"] += int64(len(got))
		}
	}
	e.Stats["visit.items"] += int64(len(got))
}

// rawVisit runs one visiting API and returns what was delivered.
func (e *Env) rawVisit(c *gkvlite.Collection, kind VisitKind, target []byte, withValue bool, stop int, tp string) (got []model.KV, depths []int, err error) {
	n := 0
	take := func(i *gkvlite.Item) bool {
		if e.RC != nil {
			e.RC.CheckHandedOut(i, "visitor")
		}
		kv := model.KV{Key: append([]byte{}, i.Key...), Prio: i.Priority}
		if withValue && i.Val != nil {
			kv.Val = append([]byte{}, i.Val...)
		}
		got = append(got, kv)
		n++
		return !(stop >= 0 && n > stop)
	}
	vt := "VisitAsc"
	if kind.Desc() {
		vt = "VisitDesc"
	}
	if kind == VIterAsc || kind == VIterDesc {
		vt = "Iter" + vt[5:]
	}
	if withValue {
		vt += "(kv)"
	} else {
		vt += "(k)"
	}
	e.guard("Visit", func() {
		e.tag(tp + vt)
		switch kind {
		case VAsc:
			err = c.VisitItemsAscend(target, withValue, take)
		case VDesc:
			err = c.VisitItemsDescend(target, withValue, take)
		case VAscEx:
			depths = []int{}
			err = c.VisitItemsAscendEx(target, withValue, func(i *gkvlite.Item, d uint64) bool {
				depths = append(depths, int(d))
				return take(i)
			})
		case VDescEx:
			depths = []int{}
			err = c.VisitItemsDescendEx(target, withValue, func(i *gkvlite.Item, d uint64) bool {
				depths = append(depths, int(d))
				return take(i)
			})
		case VIterAsc, VIterDesc:
			baseProducers, _ := IterProducers()
			var it gkvlite.ItemIterator
			if kind == VIterAsc {
				it = c.IterateAscend(target, withValue)
			} else {
				it = c.IterateDescend(target, withValue)
			}
			exhausted := true
			for it.Next() {
				if !take(it.Result()) {
					exhausted = false
					break
				}
			}
			if exhausted {
				err = it.Err() // only meaningful (and ordered after the producer's write) once Next() returned false
			}
			it.Close()
			// the producer goroutine must exit (and release its version) once the consumer is done
			if st := WaitIterProducersAbove(baseProducers, 20*time.Second); st != "" {
				e.Failf("C18/iterator-producer-still-alive", "the iterator's producer goroutine is still alive after Close():\n%s", st)
			}
		}
		e.tag("")
	})
	return
}

func (e *Env) Flush() {
	if !e.begin("Flush") {
		return
	}
	e.Stats["op.Flush"]++
	var err error
	e.guard("Flush", func() {
		e.tag("Flush")
		err = e.S.Flush()
		e.tag("")
	})
	if e.Failed() {
		return
	}
	if e.faultOutcome("Flush", err, true) {
		return
	}
	if e.Cfg.MemOnly {
		if err == nil {
			e.Failf("flush/memory-only-accepted", "Flush on a memory-only store returned nil")
		}
		return
	}
	if err != nil {
		e.Failf("flush/unexpected-error", "Flush: %v", err)
		return
	}
	// the durable end is the end of the root record just written (the file may be
	// longer when unreferenced bytes of an earlier Collection.Write() follow it)
	e.M.Flush(e.F.DurableEnd())
	e.lastFlushStep = e.Step
	if e.Cfg.Decode {
		e.DecodeCheck("after-flush")
	}
}

func (e *Env) Evict(name string, times int) {
	if !e.begin("Evict(%q,x%d)", name, times) {
		return
	}
	c, _ := e.coll(name)
	if c == nil {
		return
	}
	e.Stats["op.Evict"]++
	e.guard("EvictSomeItems", func() {
		e.tag("Evict")
		for i := 0; i < times; i++ {
			e.Stats["evicted"] += int64(c.EvictSomeItems())
		}
		e.tag("")
	})
	if e.FaultFired() {
		e.Stats["fault.fired/op=Evict/"+e.Fault.FiredKind.String()]++
		e.FaultOp = "Evict"
	}
}

func (e *Env) Len(snap int, name string) {
	if !e.begin("Len(snap=%d,%q)", snap, name) {
		return
	}
	_, c, m, tp := e.handleFor(snap, name)
	if c == nil {
		return
	}
	e.Stats["op.Len"]++
	var n int64
	var err error
	e.guard("Len", func() {
		e.tag(tp + "Len")
		n, err = c.Len()
		e.tag("")
	})
	if e.Failed() {
		return
	}
	if e.faultOutcome("Len", err, true) {
		return
	}
	if err != nil || n != int64(len(m.Items)) {
		e.Failf("len/wrong", "Len() = %d, %v; model %d", n, err, len(m.Items))
	}
}

// SetCollection creates or replaces a collection.
func (e *Env) SetCollection(name string, cmp model.Cmp) {
	if !e.begin("SetCollection(%q,%s)", name, cmp) {
		return
	}
	e.Stats["op.SetCollection"]++
	var c *gkvlite.Collection
	e.guard("SetCollection", func() {
		e.tag("SetCollection")
		if cmp == model.CmpBytes || cmp == "" {
			c = e.S.SetCollection(name, nil)
		} else {
			c = e.S.SetCollection(name, cmp.Func())
		}
		e.tag("")
	})
	if e.Failed() {
		return
	}
	if c == nil {
		e.Failf("setcollection/nil", "SetCollection(%q) returned nil", name)
		return
	}
	if c.Name() != name {
		e.Failf("setcollection/name", "SetCollection(%q) returned a collection named %q", name, c.Name())
		return
	}
	if m, ok := e.M.Live.Colls[name]; ok {
		e.Stats["op.SetCollection.existing"]++
		if cmp != "" {
			m.Cmp = cmp
		}
	} else {
		e.M.Live.Colls[name] = model.NewColl(cmp)
	}
	e.H[name] = c
	e.checkNames("after-SetCollection", e.S, e.M.Live)
}

func (e *Env) RemoveCollection(name string) {
	if !e.begin("RemoveCollection(%q)", name) {
		return
	}
	e.Stats["op.RemoveCollection"]++
	e.guard("RemoveCollection", func() {
		e.tag("RemoveCollection")
		e.S.RemoveCollection(name)
		e.tag("")
	})
	if e.Failed() {
		return
	}
	delete(e.M.Live.Colls, name)
	delete(e.H, name)
	e.checkNames("after-RemoveCollection", e.S, e.M.Live)
	if e.S.GetCollection(name) != nil {
		e.Failf("removecollection/still-there", "GetCollection(%q) non-nil after RemoveCollection", name)
	}
}

// GetCollection re-fetches a handle.
func (e *Env) GetCollection(name string) {
	if !e.begin("GetCollection(%q)", name) {
		return
	}
	e.Stats["op.GetCollection"]++
	c := e.S.GetCollection(name)
	_, have := e.M.Live.Colls[name]
	if have != (c != nil) {
		e.Failf("getcollection/presence", "GetCollection(%q) nil=%v, model has=%v", name, c == nil, have)
		return
	}
	if have {
		if c != e.H[name] {
			e.Failf("getcollection/different-handle", "GetCollection(%q) returned a handle different from the one SetCollection/open returned", name)
			return
		}
	}
}

// Snapshot takes a snapshot of the original (from<0) or of another snapshot.
func (e *Env) Snapshot(from int) {
	if !e.begin("Snapshot(from=%d)", from) {
		return
	}
	var src *gkvlite.Store
	var ms *model.State
	var fl []model.Flushed
	if from < 0 {
		src, ms, fl = e.S, e.M.Live, e.M.Flushes
	} else {
		if from >= len(e.Snaps) || e.Snaps[from].Closed {
			return
		}
		src, ms, fl = e.Snaps[from].S, e.Snaps[from].M, e.Snaps[from].Flushes
	}
	e.Stats["op.Snapshot"]++
	var s *gkvlite.Store
	e.guard("Snapshot", func() {
		e.tag("Snapshot")
		s = src.Snapshot()
		e.tag("")
	})
	if e.Failed() {
		return
	}
	sn := &Snap{S: s, M: ms.Clone(), H: map[string]*gkvlite.Collection{}, Flushes: append([]model.Flushed{}, fl...)}
	e.checkNames("snapshot", s, sn.M)
	for _, n := range s.GetCollectionNames() {
		sn.H[n] = s.GetCollection(n)
		// a snapshot of a snapshot shares its parent's version: if that has been superseded, so has this
		if from >= 0 && e.Stale[e.Snaps[from].H[n]] {
			e.Stale[sn.H[n]] = true
		}
	}
	e.Snaps = append(e.Snaps, sn)
}

func (e *Env) closeSnap(sn *Snap) {
	if sn.Closed {
		return
	}
	sn.Closed = true
	e.guard("Snapshot.Close", func() {
		e.tag("snap:Close")
		sn.S.Close()
		e.tag("")
	})
}

func (e *Env) SnapClose(i int) {
	if i >= len(e.Snaps) || e.Snaps[i].Closed {
		return
	}
	if !e.begin("SnapClose(%d)", i) {
		return
	}
	e.Stats["op.SnapClose"]++
	e.closeSnap(e.Snaps[i])
}

// SnapMutate verifies that snapshots refuse mutation and flushing.
func (e *Env) SnapMutate(i int, name string, key []byte) {
	if i >= len(e.Snaps) || e.Snaps[i].Closed {
		return
	}
	if !e.begin("SnapMutate(%d,%q)", i, name) {
		return
	}
	sn := e.Snaps[i]
	e.Stats["op.SnapMutate"]++
	e.guard("snapshot-mutation", func() {
		e.tag("snap:Mutate")
		if err := sn.S.Flush(); err == nil {
			e.Failf("snapshot/flush-accepted", "Flush on a snapshot returned nil")
		}
		if c := sn.H[name]; c != nil {
			if err := c.Set(key, []byte("x")); err == nil {
				e.Failf("snapshot/set-accepted", "Set on a snapshot returned nil")
			}
			if err := c.SetItem(&gkvlite.Item{Key: key, Val: []byte("x"), Priority: 1}); err == nil {
				e.Failf("snapshot/set-accepted", "SetItem on a snapshot returned nil")
			}
			if _, err := c.Delete(key); err == nil {
				e.Failf("snapshot/delete-accepted", "Delete on a snapshot returned nil error")
			}
			if err := c.Write(); err == nil {
				e.Failf("snapshot/write-accepted", "Collection.Write on a snapshot returned nil")
			}
		}
		e.tag("")
	})
}

// SnapRevert calls FlushRevert on a snapshot.
func (e *Env) SnapRevert(i int) {
	if i >= len(e.Snaps) || e.Snaps[i].Closed || e.F == nil {
		return
	}
	if !e.begin("SnapRevert(%d)", i) {
		return
	}
	sn := e.Snaps[i]
	e.Stats["op.SnapRevert"]++
	before := e.F.Bytes()
	var err error
	e.Loading = model.NewState()
	if n := len(sn.Flushes); n > 1 {
		e.Loading = sn.Flushes[n-2].State
	}
	e.boundedScan("Snapshot.FlushRevert", func() {
		e.tag("snap:FlushRevert")
		err = sn.S.FlushRevert()
		e.tag("")
	})
	e.Loading = nil
	if e.Failed() {
		return
	}
	if e.faultOutcome("SnapRevert", err, true) {
		// a snapshot whose FlushRevert failed has no usable state: release it
		e.closeSnap(sn)
		return
	}
	if err != nil {
		e.Failf("snapshot/revert-error", "FlushRevert on a snapshot: %v", err)
		return
	}
	if !bytes.Equal(before, e.F.Bytes()) {
		e.Failf("snapshot/revert-changed-file", "FlushRevert on a snapshot changed the file (len %d -> %d)", len(before), e.F.Size())
		return
	}
	if n := len(sn.Flushes); n > 0 {
		sn.Flushes = sn.Flushes[:n-1]
	}
	if n := len(sn.Flushes); n > 0 {
		sn.M = sn.Flushes[n-1].State.Clone()
	} else {
		sn.M = model.NewState()
	}
	sn.H = map[string]*gkvlite.Collection{}
	e.checkNames("snapshot-after-revert", sn.S, sn.M)
	for _, n := range sn.S.GetCollectionNames() {
		sn.H[n] = sn.S.GetCollection(n)
	}
}

// boundedScan runs fn with the root-scan iteration bound armed.
func (e *Env) boundedScan(what string, fn func()) {
	size := int64(0)
	if e.F != nil {
		size = e.F.Size()
	}
	var iters int64
	gkvlite.VerifSetPoint(func(name string) {
		if name == "rootscan.iter" {
			iters++
			if iters == 1 && what == "FlushRevert" && e.Cfg.ReaderInRevert {
				// a reader goroutine lists the collections while FlushRevert is between swapping the
				// collection table out and re-loading it (whatever it sees is transient and not checked)
				done := make(chan struct{})
				st := e.S
				go func() {
					defer close(done)
					defer func() { recover() }()
					_ = st.GetCollectionNames()
				}()
				<-done
				e.Stats["reads-during-revert"]++
			}
			if iters > 2*size+64 {
				panic(scanBound{iters, size})
			}
		}
	})
	defer func() {
		gkvlite.VerifSetPoint(nil)
		e.ScanIters += iters
		e.Stats["rootscan.iters"] += iters
	}()
	e.guard(what, fn)
}

// FlushRevert on the writable store.  All snapshots must be closed first.
func (e *Env) FlushRevert() {
	if !e.begin("FlushRevert") {
		return
	}
	e.Stats["op.FlushRevert"]++
	for _, sn := range e.Snaps {
		e.closeSnap(sn)
	}
	e.Snaps = nil
	var err error
	e.Loading = model.NewState()
	if n := len(e.M.Flushes); n > 1 {
		e.Loading = e.M.Flushes[n-2].State
	}
	// an iterator that its consumer has not finished with (one item taken, neither exhausted nor
	// closed) is open while the store reverts; what it delivers afterwards is not judged
	var openIt gkvlite.ItemIterator
	if e.Cfg.IterAcrossRevert && !e.Cfg.MemOnly {
		for _, n := range e.M.Live.Names() {
			if c := e.H[n]; c != nil && len(e.M.Live.Colls[n].Items) > 1 {
				e.tag("IterAsc(kv)")
				openIt = c.IterateAscend(nil, e.Step%2 == 0)
				openIt.Next()
				e.tag("")
				e.Stats["iterators-open-across-revert"]++
				break
			}
		}
	}
	blocked, dump := RunDetectingDeadlock(func() {
		e.boundedScan("FlushRevert", func() {
			e.tag("FlushRevert")
			err = e.S.FlushRevert()
			e.tag("")
		})
	})
	e.Loading = nil
	if blocked {
		e.Failf("C08/flushrevert-blocked-forever", "FlushRevert does not return and every goroutine of the process is parked on a channel or lock, so nothing can wake it:\n%s", firstGoroutines(dump, 6))
		return
	}
	if openIt != nil {
		e.tag("IterAsc(kv)")
		openIt.Close()
		e.tag("")
		WaitIterProducers(20e9)
	}
	if e.Failed() {
		return
	}
	if e.faultOutcome("FlushRevert", err, true) {
		return
	}
	if e.Cfg.MemOnly {
		if err == nil {
			e.Failf("flushrevert/memory-only-accepted", "FlushRevert on a memory-only store returned nil")
		}
		return
	}
	if err != nil {
		e.Failf("flushrevert/unexpected-error", "FlushRevert: %v", err)
		return
	}
	e.M.Revert()
	if got, want := e.F.Size(), e.M.DurableLen(); got != want {
		e.Failf("flushrevert/file-length", "file is %d bytes after FlushRevert, the previous flush ended at %d", got, want)
		return
	}
	e.H = map[string]*gkvlite.Collection{}
	e.checkNames("after-FlushRevert", e.S, e.M.Live)
	for _, n := range e.S.GetCollectionNames() {
		e.H[n] = e.S.GetCollection(n)
	}
}

func firstGoroutines(dump string, n int) string {
	parts := strings.Split(dump, "\n\n")
	if len(parts) > n {
		parts = parts[:n]
	}
	return strings.Join(parts, "\n\n")
}

// CollWrite calls Collection.Write (items and nodes, no root record).
func (e *Env) CollWrite(name string) {
	if !e.begin("CollWrite(%q)", name) {
		return
	}
	c, _ := e.coll(name)
	if c == nil || e.Cfg.MemOnly {
		return
	}
	e.Stats["op.CollWrite"]++
	var err error
	e.guard("Collection.Write", func() {
		e.tag("CollWrite")
		err = c.Write()
		e.tag("")
	})
	if e.Failed() {
		return
	}
	if e.faultOutcome("CollWrite", err, true) {
		return
	}
	if err != nil {
		e.Failf("collwrite/unexpected-error", "Collection.Write: %v", err)
	}
}

// SnapCollWrite calls Collection.Write() through a snapshot's handle.  Whether it reports an error is
// not checked here; what it may not do is write (online C09 monitor) or change what is durable.
func (e *Env) SnapCollWrite(i int, name string) {
	if i >= len(e.Snaps) || e.Snaps[i].Closed || e.Cfg.MemOnly {
		return
	}
	c := e.Snaps[i].H[name]
	if c == nil {
		return
	}
	if !e.begin("SnapCollWrite(%d,%q)", i, name) {
		return
	}
	e.Stats["op.SnapCollWrite"]++
	e.guard("snapshot Collection.Write", func() {
		e.tag("snap:CollWrite")
		_ = c.Write()
		e.tag("")
	})
}

// CopyTo copies the original (snap<0) or a snapshot and checks the result.
func (e *Env) CopyTo(snap int, flushEvery int) (dst *vfile.File) {
	if !e.begin("CopyTo(snap=%d,flushEvery=%d)", snap, flushEvery) {
		return nil
	}
	var src *gkvlite.Store
	var ms *model.State
	tp := ""
	if snap < 0 {
		src, ms = e.S, e.M.Live
	} else {
		if snap >= len(e.Snaps) || e.Snaps[snap].Closed {
			return nil
		}
		src, ms, tp = e.Snaps[snap].S, e.Snaps[snap].M, "snap:"
	}
	e.Stats["op.CopyTo"]++
	dst = vfile.New("copy-dst")
	if pre := e.DstPre; pre != nil {
		// the destination file already holds a store: CopyTo opens it and copies INTO it, so the
		// result is that store with the source's collections set over it
		e.DstPre = nil
		dst = vfile.FromBytes("copy-dst", pre.Img)
		merged := pre.State.Clone()
		for n, c := range ms.Colls {
			mc, ok := merged.Colls[n]
			if !ok {
				mc = model.NewColl(c.Cmp)
				merged.Colls[n] = mc
			}
			mc.Cmp = c.Cmp
			for _, kv := range c.Sorted() {
				mc.Set(kv.Key, kv.Val, kv.Prio)
			}
		}
		ms = merged
		e.Stats["op.CopyTo.into-existing-store"]++
	}
	dst.KeepLog = true
	dst.SetTag("CopyTo(dst)")
	if e.DstFault != nil {
		dst.Arm(e.DstFault)
	}
	dstF := dst
	defer func() { e.LastDstCalls = dstF.Seq() }()
	var srcBefore []byte
	var wBefore int64
	if e.F != nil {
		srcBefore = e.F.Bytes()
		wBefore = e.F.NWrites + e.F.NTruncs
	}
	var res *gkvlite.Store
	var err error
	e.guard("CopyTo", func() {
		e.tag(tp + "CopyTo(src)")
		res, err = src.CopyTo(dst, flushEvery)
		e.tag("")
	})
	dst.SetTag("")
	dst.Disarm()
	if e.Failed() {
		return
	}
	if e.DstFault != nil && e.DstFault.Fired {
		e.Stats["fault.fired/op=CopyTo(dst)/"+e.DstFault.FiredKind.String()]++
		e.FaultOp = "CopyTo(dst)"
		if err == nil {
			e.Failf("C07/error-swallowed/op=CopyTo(dst)/fault="+e.DstFault.FiredKind.String(),
				"CopyTo returned no error although the destination file failed a %s call", e.DstFault.FiredKind)
		}
		if e.F != nil && (e.F.NWrites+e.F.NTruncs != wBefore || !bytes.Equal(srcBefore, e.F.Bytes())) {
			e.Failf("copyto/source-file-changed", "a failed CopyTo wrote to or truncated its source file")
		}
		return nil
	}
	if e.faultOutcome("CopyTo", err, true) {
		return nil
	}
	if err != nil || res == nil {
		e.Failf("copyto/unexpected-error", "CopyTo: %v", err)
		return
	}
	if e.F != nil {
		if e.F.NWrites+e.F.NTruncs != wBefore || !bytes.Equal(srcBefore, e.F.Bytes()) {
			e.Failf("copyto/source-file-changed", "CopyTo wrote to or truncated its source file")
			return
		}
	}
	// destination contents through the returned store
	e2 := &Env{Cfg: Config{}, Name: "copy-dst", F: dst, S: res, M: &model.Store{Live: ms.Clone()}, Stats: map[string]int64{}, H: map[string]*gkvlite.Collection{}, Cmps: e.Cmps}
	e2.checkNames("copyto-dst", res, ms)
	if !e2.Failed() {
		for _, n := range res.GetCollectionNames() {
			e2.H[n] = res.GetCollection(n)
		}
		e2.ReadbackAll(RTotals | RAscVal | RMinMax | RGets)
		if e.Cfg.Walk && !e2.Failed() {
			e2.WalkCheck()
			for _, n := range ms.Names() {
				if !e2.Failed() {
					e2.ShapeCheck(n)
				}
			}
			for k, v := range e2.Stats {
				e.Stats[k] += v
			}
		}
	}
	if e2.Failed() {
		e.Failf("copyto/dst-"+e2.Viol.Sig, "store returned by CopyTo: %s", e2.Viol.Detail)
		return
	}
	if len(dst.Violations) > 0 {
		e.Failf("copyto/dst-file-rule", "destination file: %s", dst.Violations[0])
		return
	}
	e.LastCopyDst, e.LastCopyFlushEvery = dst, flushEvery
	e.LastCopyModel = ms
	return dst
}

// Close closes the store (and all snapshots).  The env must be reopened to continue.
func (e *Env) Close() {
	if !e.begin("Close") {
		return
	}
	for _, sn := range e.Snaps {
		e.closeSnap(sn)
	}
	e.Snaps = nil
	if e.S != nil {
		s := e.S
		e.guard("Close", func() { s.Close() })
		e.S = nil
		e.H = map[string]*gkvlite.Collection{}
	}
	for _, s := range e.closedStores {
		s := s
		e.guard("Close", func() { s.Close() })
	}
	e.closedStores = nil
}

// Pinned is a visit suspended inside its callback: a reader that keeps a
// version pinned while other operations run.
type Pinned struct {
	Name    string
	Desc    bool
	WithVal bool
	exp     []model.KV
	got     []model.KV
	resume  chan struct{}
	paused  chan struct{}
	done    chan error
	panicV  interface{}
	Done    bool
	Stale   bool // the collection was mutated while this visit was suspended
}

// PinVisit starts a full visit of a collection in a separate goroutine and
// suspends it inside the callback of the pauseAt-th item (0-based).
func (e *Env) PinVisit(name string, desc, withValue bool, pauseAt int) {
	if !e.begin("PinVisit(%q,desc=%v,%v,pauseAt=%d)", name, desc, withValue, pauseAt) {
		return
	}
	c, m := e.coll(name)
	if c == nil {
		return
	}
	e.Stats["op.PinVisit"]++
	p := &Pinned{Name: name, Desc: desc, WithVal: withValue, resume: make(chan struct{}), paused: make(chan struct{}, 1), done: make(chan error, 1)}
	if desc {
		p.exp = m.Descend(aboveAll(m))
	} else {
		p.exp = m.Ascend(belowAll(m))
	}
	n := 0
	visitor := func(i *gkvlite.Item) bool {
		kv := model.KV{Key: append([]byte{}, i.Key...), Prio: i.Priority}
		if withValue && i.Val != nil {
			kv.Val = append([]byte{}, i.Val...)
		}
		p.got = append(p.got, kv)
		if n == pauseAt {
			p.paused <- struct{}{}
			<-p.resume
		}
		n++
		return true
	}
	if withValue {
		e.tag("VisitAsc(kv)")
	} else {
		e.tag("VisitAsc(k)")
	}
	go func() {
		defer func() {
			if r := recover(); r != nil {
				p.panicV = r
				p.done <- fmt.Errorf("panic: %v", r)
			}
		}()
		var err error
		if desc {
			err = c.VisitItemsDescend(aboveAll(m), withValue, visitor)
		} else {
			err = c.VisitItemsAscend(belowAll(m), withValue, visitor)
		}
		p.done <- err
	}()
	select {
	case <-p.paused:
		e.Pins = append(e.Pins, p)
	case err := <-p.done:
		p.Done = true
		e.finishPin(p, err)
	}
	e.tag("")
}

func (e *Env) finishPin(p *Pinned, err error) {
	if p.panicV != nil {
		e.Failf("pinned-visit/panic", "a visit that was suspended in its callback while other operations ran panicked on resumption: %v", p.panicV)
		return
	}
	if err != nil {
		e.Failf("pinned-visit/error", "a visit suspended in its callback while other operations ran failed: %v", err)
		return
	}
	if d := diffKVs(p.got, p.exp, p.WithVal); d != "" {
		e.Failf("pinned-visit/wrong-sequence", "a visit that was suspended in its callback while other operations ran did not deliver the version it started on: %s", d)
	}
}

// ResumeVisit lets the i-th pinned visit run to completion.
func (e *Env) ResumeVisit(i int) {
	if i >= len(e.Pins) || e.Pins[i].Done {
		return
	}
	if !e.begin("ResumeVisit(%d)", i) {
		return
	}
	p := e.Pins[i]
	p.Done = true
	e.Stats["op.ResumeVisit"]++
	if e.RC != nil && p.Stale {
		e.RC.SetTag("stale-version-read")
	}
	if p.WithVal {
		e.tag("VisitAsc(kv)")
	} else {
		e.tag("VisitAsc(k)")
	}
	close(p.resume)
	err := <-p.done
	e.tag("")
	e.finishPin(p, err)
}

// ResumeAll finishes all pinned visits (end of case).
func (e *Env) ResumeAll() {
	for i := range e.Pins {
		e.ResumeVisit(i)
	}
}

// OpenPins counts suspended visits.
func (e *Env) OpenPins() int {
	n := 0
	for _, p := range e.Pins {
		if !p.Done {
			n++
		}
	}
	return n
}

// CloseOriginalOnly closes the writable store but keeps its snapshots open
// (they must remain fully readable).
func (e *Env) CloseOriginalOnly() {
	if e.S == nil {
		return
	}
	e.Step++
	e.ResumeAll()
	s := e.S
	e.guard("Close", func() { s.Close() })
	e.S = nil
	e.H = map[string]*gkvlite.Collection{}
	e.M.Live = model.NewState()
	e.Stats["op.CloseOriginal"]++
}

// markStale records that every other holder of collection name's previous
// version (open snapshots, suspended visits) now reads a superseded version.
func (e *Env) markStale(name string) {
	if e.Stale == nil {
		e.Stale = map[*gkvlite.Collection]bool{}
	}
	for _, sn := range e.Snaps {
		if !sn.Closed {
			if c := sn.H[name]; c != nil {
				e.Stale[c] = true
			}
		}
	}
	for _, p := range e.Pins {
		if !p.Done && p.Name == name {
			p.Stale = true
		}
	}
}

// FaultFired reports whether the armed fault hit a file call of the current operation.
func (e *Env) FaultFired() bool {
	if e.Fault == nil || !e.Fault.Fired {
		return false
	}
	if e.Fault.FiredIn == "EvictSomeItems" && !strings.HasPrefix(e.CurOp, "Evict") {
		// the failing call was issued by an EvictSomeItems nested in another
		// API call (CopyTo evicts as it goes); EvictSomeItems has no error
		// result, so the enclosing call is checked like a fault-free one.
		if !e.nestedEvictCounted {
			e.nestedEvictCounted = true
			e.Stats["fault.fired/nested-EvictSomeItems"]++
		}
		return false
	}
	return true
}

// faultOutcome handles the result of an operation during which an injected
// file fault fired: the call must have returned an error and is then treated
// as having had no effect.  It returns true when the caller must stop.
func (e *Env) faultOutcome(op string, err error, hasErr bool) bool {
	if !e.FaultFired() {
		return false
	}
	k := e.Fault.FiredKind.String()
	e.Stats["fault.fired/op="+op+"/"+k]++
	e.FaultOp = op
	if hasErr && err == nil {
		e.Failf("C07/error-swallowed/op="+op+"/fault="+k,
			"%s returned no error although the file failed a %s call issued on its behalf (call %d of the operation, %d bytes requested, %d transferred)",
			op, k, e.Fault.Nth, e.Fault.FiredLen, e.Fault.Partial)
	}
	return true
}

// VisitEvicting runs a full key-only (or with-value) ascending visit whose callback calls
// EvictSomeItems at the evictAt-th item - what CopyTo does to its source - and compares the sequence.
func (e *Env) VisitEvicting(name string, withValue bool, evictAt int) {
	if !e.begin("VisitEvicting(%q,%v,evictAt=%d)", name, withValue, evictAt) {
		return
	}
	c, m := e.coll(name)
	if c == nil {
		return
	}
	e.Stats["op.VisitEvicting"]++
	var got []model.KV
	var err error
	n := 0
	e.guard("Visit", func() {
		e.tag("VisitAsc(kv)")
		err = c.VisitItemsAscend(belowAll(m), withValue, func(i *gkvlite.Item) bool {
			// the item must be referenced when it is handed over (what the callback does to
			// the cache afterwards is its own business)
			if e.RC != nil {
				e.RC.CheckHandedOut(i, "visitor")
			}
			kv := model.KV{Key: append([]byte{}, i.Key...), Prio: i.Priority}
			if withValue && i.Val != nil {
				kv.Val = append([]byte{}, i.Val...)
			}
			got = append(got, kv)
			if n == evictAt {
				for k := 0; k < 4; k++ {
					e.Stats["evicted"] += int64(c.EvictSomeItems())
				}
			}
			n++
			return true
		})
		e.tag("")
	})
	if e.Failed() {
		return
	}
	if err != nil {
		e.Failf("visit/unexpected-error", "visit with evicting callback: %v", err)
		return
	}
	if d := diffKVs(got, m.Ascend(belowAll(m)), withValue); d != "" {
		e.Failf("visit/wrong-sequence/evicting-callback", "visit whose callback evicts: %s", d)
	}
}
