package driver

import (
	"fmt"
	"sort"
	"sync"

	"github.com/cbehopkins/gkvlite"
)

// RefMon is the online monitor behind the ItemAlloc/ItemAddRef/ItemDecRef
// callbacks (C15).  It is mutex protected so the monitor itself cannot race.
type RefMon struct {
	mu     sync.Mutex
	cnt    map[*gkvlite.Item]int
	acq    map[*gkvlite.Item][]string // where the outstanding references were acquired (LIFO attribution)
	tag    string
	viol   string
	Allocs int64
	Adds   int64
	Decs   int64
	// Recycle makes the monitor behave like a recycling allocator (tools/slab): an item whose count
	// reaches zero is wiped, as if its memory were handed to the next item.  Whoever still uses it
	// sees garbage.  The fields are replaced, not overwritten, so slices held elsewhere stay intact.
	Recycle  bool
	Recycled int64
	// BaseOne is the accounting of an application that installs ItemAddRef/ItemDecRef but no
	// ItemAlloc: an item it has not seen before was made by the store and starts with the one
	// reference of its maker.
	BaseOne bool
}

// known makes sure an item has an entry (BaseOne: starting at 1).  Caller holds the lock.
func (r *RefMon) known(i *gkvlite.Item) {
	if _, ok := r.cnt[i]; !ok && r.BaseOne && i != nil {
		r.cnt[i] = 1
		r.acq[i] = append(r.acq[i], "made-by-store@"+r.tag)
	}
}

func NewRefMon() *RefMon {
	return &RefMon{cnt: map[*gkvlite.Item]int{}, acq: map[*gkvlite.Item][]string{}}
}

// SetTag names the API operation in progress, for attribution of references.
func (r *RefMon) SetTag(t string) { r.mu.Lock(); r.tag = t; r.mu.Unlock() }

// Alloc registers an item with the count 1 the documentation prescribes.
func (r *RefMon) Alloc(i *gkvlite.Item) {
	r.mu.Lock()
	r.cnt[i] = 1
	r.acq[i] = append(r.acq[i], "alloc@"+r.tag)
	r.Allocs++
	r.mu.Unlock()
}

func (r *RefMon) AddRef(i *gkvlite.Item) {
	r.mu.Lock()
	r.known(i)
	r.cnt[i]++
	r.acq[i] = append(r.acq[i], "addref@"+r.tag)
	r.Adds++
	r.mu.Unlock()
}

func (r *RefMon) DecRef(i *gkvlite.Item) {
	r.mu.Lock()
	defer r.mu.Unlock()
	r.Decs++
	if i == nil {
		if r.viol == "" {
			r.viol = "C15/decref-nil-item: ItemDecRef called with a nil item"
		}
		return
	}
	r.known(i)
	r.cnt[i]--
	if a := r.acq[i]; len(a) > 0 {
		r.acq[i] = a[:len(a)-1]
	}
	if r.cnt[i] < 0 && r.viol == "" {
		r.viol = fmt.Sprintf("C15/count-below-zero: ItemDecRef took the count of item %s to %d", kvString(i.Key), r.cnt[i])
	}
	if r.cnt[i] == 0 && r.Recycle {
		// the buffers are overwritten (whoever shares them sees it) and the fields replaced
		for j := range i.Key {
			i.Key[j] = '#'
		}
		for j := range i.Val {
			i.Val[j] = '#'
		}
		k := make([]byte, len(i.Key))
		for j := range k {
			k[j] = 0xdd
		}
		i.Key, i.Val, i.Priority = k, []byte("\xdd recycled \xdd"), 0x5ddddddd
		r.Recycled++
	}
}

// Count returns the current count of an item.
func (r *RefMon) Count(i *gkvlite.Item) int {
	r.mu.Lock()
	defer r.mu.Unlock()
	r.known(i)
	return r.cnt[i]
}

// CheckHandedOut asserts that an item given to the caller is still referenced.
func (r *RefMon) CheckHandedOut(i *gkvlite.Item, where string) {
	if i == nil {
		return
	}
	r.mu.Lock()
	defer r.mu.Unlock()
	r.known(i)
	if r.cnt[i] <= 0 && r.viol == "" {
		r.viol = fmt.Sprintf("C15/handed-out-with-nonpositive-count/%s: item %s handed to the caller by %s has count %d", where, kvString(i.Key), where, r.cnt[i])
	}
}

// CheckReachable asserts that an item cached in an open handle is referenced.
func (r *RefMon) CheckReachable(i *gkvlite.Item) {
	if i == nil {
		return
	}
	r.mu.Lock()
	defer r.mu.Unlock()
	r.known(i)
	if r.cnt[i] <= 0 && r.viol == "" {
		r.viol = fmt.Sprintf("C15/reachable-with-nonpositive-count: item %s cached in an open collection has count %d", kvString(i.Key), r.cnt[i])
	}
}

func (r *RefMon) Violation() string {
	r.mu.Lock()
	defer r.mu.Unlock()
	return r.viol
}

// Outstanding returns the number of items with a non-zero count and the sum.
func (r *RefMon) Outstanding() (items int, refs int, example string) {
	r.mu.Lock()
	defer r.mu.Unlock()
	for it, c := range r.cnt {
		if c != 0 {
			items++
			refs += c
			if example == "" {
				example = fmt.Sprintf("item %s count %d acquired %v", kvString(it.Key), c, r.acq[it])
			}
		}
	}
	return
}

// LeakKinds returns the sorted set of acquisition sites of outstanding references.
func (r *RefMon) LeakKinds() []string {
	r.mu.Lock()
	defer r.mu.Unlock()
	set := map[string]bool{}
	for it, c := range r.cnt {
		if c > 0 {
			a := r.acq[it]
			if len(a) == 0 {
				set["unattributed"] = true
			}
			for _, k := range a {
				set[k] = true
			}
		}
	}
	var res []string
	for k := range set {
		res = append(res, k)
	}
	sort.Strings(res)
	return res
}

func (r *RefMon) Tracked() int {
	r.mu.Lock()
	defer r.mu.Unlock()
	return len(r.cnt)
}

// LeakedPtrs lists outstanding items (debugging aid).
func (r *RefMon) LeakedPtrs() []string {
	r.mu.Lock()
	defer r.mu.Unlock()
	var res []string
	for it, c := range r.cnt {
		if c != 0 {
			res = append(res, fmt.Sprintf("%p %s count=%d acq=%v", it, kvString(it.Key), c, r.acq[it]))
		}
	}
	return res
}

// RecycledCount returns the number of items wiped by the recycling allocator.
func (r *RefMon) RecycledCount() int64 {
	r.mu.Lock()
	defer r.mu.Unlock()
	return r.Recycled
}
