package driver

import (
	"bytes"
	"fmt"
	"strings"

	"github.com/cbehopkins/gkvlite"

	"verif/internal/decoder"
	"verif/internal/model"
)

// TreeItem is one element of the in-order view of a tree.
type TreeItem struct {
	Key   []byte
	Prio  int32
	Depth int
}

// CheckShape verifies that an in-order (key,prio,depth) sequence encodes a
// well-formed binary tree, that no child outranks its parent (heap) and,
// when canon is non-nil, that every depth is the canonical one.
func CheckShape(seq []TreeItem, heap bool, canon map[string]int) string {
	var rec func(lo, hi, d int, parentPrio int64) string
	rec = func(lo, hi, d int, parentPrio int64) string {
		if lo >= hi {
			return ""
		}
		root := -1
		for i := lo; i < hi; i++ {
			if seq[i].Depth < d {
				return fmt.Sprintf("malformed: key %s at depth %d inside a subtree that starts at depth %d", kvString(seq[i].Key), seq[i].Depth, d)
			}
			if seq[i].Depth == d {
				if root >= 0 {
					return fmt.Sprintf("malformed: keys %s and %s both at depth %d in the same subtree", kvString(seq[root].Key), kvString(seq[i].Key), d)
				}
				root = i
			}
		}
		if root < 0 {
			return fmt.Sprintf("malformed: no item at depth %d in a non-empty subtree (%d items)", d, hi-lo)
		}
		if heap && parentPrio >= 0 && int64(seq[root].Prio) > parentPrio {
			return fmt.Sprintf("heap order: key %s (priority %d, depth %d) outranks its parent (priority %d)", kvString(seq[root].Key), seq[root].Prio, d, parentPrio)
		}
		if s := rec(lo, root, d+1, int64(seq[root].Prio)); s != "" {
			return s
		}
		return rec(root+1, hi, d+1, int64(seq[root].Prio))
	}
	if s := rec(0, len(seq), 0, -1); s != "" {
		return s
	}
	if canon != nil {
		for _, it := range seq {
			if d, ok := canon[string(it.Key)]; ok && d != it.Depth {
				return fmt.Sprintf("canonical shape: key %s reported at depth %d, the unique treap of the current keys and priorities has it at depth %d", kvString(it.Key), it.Depth, d)
			}
		}
	}
	return ""
}

type wnode struct {
	v           gkvlite.VerifNode
	left, right *wnode
}

// WalkCheck runs the hook-based structural monitors on every open handle.
func (e *Env) WalkCheck() {
	free := gkvlite.VerifFreeNodes()
	freeRoots := gkvlite.VerifFreeRootNodeLocs()
	freeLocs := gkvlite.VerifFreeNodeLocs()
	var img []byte
	if e.F != nil {
		img = e.F.Bytes()
	}
	for _, n := range e.M.Live.Names() {
		if e.S == nil {
			break
		}
		e.walkOne("orig", e.H[n], e.M.Live.Colls[n], free, freeRoots, freeLocs, img)
		if e.Failed() {
			return
		}
	}
	for _, sn := range e.Snaps {
		if sn.Closed {
			continue
		}
		for _, n := range sn.M.Names() {
			e.walkOne("snapshot", sn.H[n], sn.M.Colls[n], free, freeRoots, freeLocs, img)
			if e.Failed() {
				return
			}
		}
	}
	e.Stats["walks"]++
}

func (e *Env) walkOne(label string, c *gkvlite.Collection, m *model.Coll, free, freeRoots, freeLocs map[uintptr]struct{}, img []byte) {
	if c == nil {
		return
	}
	e.lastSeq = nil
	ri := gkvlite.VerifRootInfo(c)
	if !ri.Open {
		e.Failf("walk/handle-closed/"+label, "open handle has no current version (root == nil)")
		return
	}
	if _, bad := freeRoots[ri.Addr]; bad {
		e.Failf("C10/version-handle-on-free-list/"+label, "the current version handle of an open collection is on the rootNodeLoc free list")
		return
	}
	if _, bad := freeLocs[ri.RootLocAddr]; bad {
		e.Failf("C10/root-nodeloc-on-free-list/"+label, "the root nodeLoc of an open collection is on the nodeLoc free list")
		return
	}
	if ri.Refs < 1 {
		e.Failf("C10/version-refs-nonpositive/"+label, "current version of an open collection has refs=%d", ri.Refs)
		return
	}
	byAddr := map[uintptr]*wnode{}
	var root *wnode
	var order []*wnode
	gkvlite.VerifWalk(c, func(v gkvlite.VerifNode) {
		w := &wnode{v: v}
		byAddr[v.Addr] = w
		order = append(order, w)
		if v.Parent == 0 {
			root = w
		} else if p := byAddr[v.Parent]; p != nil {
			if v.Side < 0 {
				p.left = w
			} else {
				p.right = w
			}
		}
	})
	e.Stats["walk.nodes"] += int64(len(order))
	for _, w := range order {
		if _, bad := free[w.v.Addr]; bad {
			e.Failf("C10/reachable-node-on-free-list/"+label, "a node reachable from the current version of an open collection (depth %d) is on the free list", w.v.Depth)
			return
		}
		if w.v.NumNodes == 0 {
			e.Failf("C10/reachable-node-zeroed/"+label, "a node reachable from the current version of an open collection (depth %d) has been zeroed (numNodes=0)", w.v.Depth)
			return
		}
		if e.RC != nil && w.v.Item != nil {
			e.RC.CheckReachable(w.v.Item)
		}
	}
	// Build the full in-order view: cached part from the walk, the rest from the file.
	var seq []TreeItem
	var fail string
	var build func(w *wnode) (n, b uint64)
	persisted := func(off int64, ln uint32, depth int) (n, b uint64) {
		if ln == 0 && off == 0 {
			return 0, 0
		}
		if img == nil {
			fail = "node refers to a persisted child but the store has no file"
			return
		}
		items, nn, nb, err := decoder.Subtree(img, int64(len(img)), decoder.Loc{O: off, L: ln})
		if err != nil {
			fail = fmt.Sprintf("persisted subtree at (%d,%d): %v", off, ln, err)
			return
		}
		for _, it := range items {
			seq = append(seq, TreeItem{Key: it.Key, Prio: it.Prio, Depth: depth + it.Depth})
		}
		return nn, nb
	}
	build = func(w *wnode) (n, b uint64) {
		if fail != "" {
			return
		}
		var ln, lb, rn, rb uint64
		if w.left != nil {
			ln, lb = build(w.left)
		} else {
			ln, lb = persisted(w.v.LeftOff, w.v.LeftLen, w.v.Depth+1)
		}
		if fail != "" {
			return
		}
		var key []byte
		var prio int32
		var vlen int
		if it := w.v.Item; it != nil && it.Val != nil {
			key, prio, vlen = it.Key, it.Priority, e.ValBytes(it.Val)
		} else if w.v.ItemLen != 0 {
			di, err := decoder.ItemAt(img, decoder.Loc{O: w.v.ItemOff, L: w.v.ItemLen})
			if err != nil {
				fail = err.Error()
				return
			}
			key, prio, vlen = di.Key, di.Prio, len(di.Val)
			if it := w.v.Item; it != nil && (!bytes.Equal(it.Key, key) || it.Priority != prio) {
				fail = fmt.Sprintf("cached item %s/%d disagrees with its persisted record %s/%d", kvString(it.Key), it.Priority, kvString(key), prio)
				return
			}
		} else {
			fail = fmt.Sprintf("node at depth %d has neither a cached item with a value nor a persisted item", w.v.Depth)
			return
		}
		seq = append(seq, TreeItem{Key: key, Prio: prio, Depth: w.v.Depth})
		if w.right != nil {
			rn, rb = build(w.right)
		} else {
			rn, rb = persisted(w.v.RightOff, w.v.RightLen, w.v.Depth+1)
		}
		if fail != "" {
			return
		}
		n = ln + rn + 1
		b = lb + rb + uint64(len(key)+vlen)
		if w.v.NumNodes != n || w.v.NumBytes != b {
			fail = fmt.Sprintf("aggregates: node of key %s (depth %d) records numNodes=%d numBytes=%d, its subtree has %d items / %d bytes",
				kvString(key), w.v.Depth, w.v.NumNodes, w.v.NumBytes, n, b)
		}
		return
	}
	if root != nil {
		build(root)
	} else if !ri.RootEmpty {
		persisted(ri.RootOff, ri.RootLen, 0)
	}
	if fail != "" {
		e.Failf("C13/in-memory-tree/"+classify(fail)+"/"+label, "%s", fail)
		return
	}
	e.lastSeq = seq
	want := m.Sorted()
	if len(seq) != len(want) {
		e.Failf("C13/in-memory-tree/contents/"+label, "tree holds %d items, model %d", len(seq), len(want))
		return
	}
	for i := range seq {
		if !bytes.Equal(seq[i].Key, want[i].Key) {
			e.Failf("C13/in-memory-tree/search-order/"+label, "in-order position %d holds key %s, sorted model has %s", i, kvString(seq[i].Key), kvString(want[i].Key))
			return
		}
	}
	var canon map[string]int
	if !m.HeapOff {
		if d, ok := m.Depths(); ok {
			canon = d
		}
	}
	if s := CheckShape(seq, !m.HeapOff, canon); s != "" {
		e.Failf("C13/in-memory-tree/"+classify(s)+"/"+label, "%s", s)
		return
	}
	// Reclaim marks: a node reachable from a live version may only carry the
	// mark of a version that cannot die before this one does: none at all for
	// the newest version, this version's own mark or the mark of a newer
	// version held through the chain for an older (pinned) version.
	okMarks := map[uintptr]bool{}
	if len(ri.ChainMarks) > 0 {
		okMarks[ri.MarkAddr] = true
		for _, m := range ri.ChainMarks {
			okMarks[m] = true
		}
	}
	for _, w := range order {
		if w.v.Next != 0 && !okMarks[w.v.Next] {
			kind := "the mark of a version that can die before this one"
			if w.v.Next == ri.MarkAddr {
				kind = "the reclaim mark of the current (newest) version itself"
			}
			e.Failf("C10/reachable-node-marked-reclaimable/"+label,
				"a node reachable from the current version of an open collection (depth %d) carries %s: it will be recycled while still in use", w.v.Depth, kind)
			return
		}
	}
}

func classify(s string) string {
	for _, k := range [][2]string{{"aggregates", "aggregates"}, {"heap order", "heap-order"}, {"canonical shape", "canonical-shape"},
		{"malformed", "malformed"}, {"persisted subtree", "persisted-subtree"}, {"cached item", "cached-item"}} {
		if strings.HasPrefix(s, k[0]) {
			return k[1]
		}
	}
	return "other"
}

// ReachableItems returns every item cached in a node reachable from any open
// handle (original, abandoned stores are not included, snapshots).
func (e *Env) ReachableItems() []*gkvlite.Item {
	var res []*gkvlite.Item
	add := func(c *gkvlite.Collection) {
		if c == nil {
			return
		}
		gkvlite.VerifWalk(c, func(v gkvlite.VerifNode) {
			if v.Item != nil {
				res = append(res, v.Item)
			}
		})
	}
	for _, c := range e.H {
		add(c)
	}
	for _, sn := range e.Snaps {
		if !sn.Closed {
			for _, c := range sn.H {
				add(c)
			}
		}
	}
	for _, s := range e.closedStores {
		for _, n := range s.GetCollectionNames() {
			add(s.GetCollection(n))
		}
	}
	return res
}

// ShapeCheck is the public-API-only tree oracle: the (key, priority, depth)
// sequence of a full VisitItemsAscendEx must encode a well-formed binary
// tree in heap order whose depths are the canonical ones.
func (e *Env) ShapeCheck(name string) {
	if e.Failed() {
		return
	}
	c, m := e.coll(name)
	if c == nil {
		return
	}
	var seq []TreeItem
	var err error
	e.guard("VisitItemsAscendEx", func() {
		e.tag("VisitAsc(k)")
		err = c.VisitItemsAscendEx(belowAll(m), false, func(i *gkvlite.Item, d uint64) bool {
			seq = append(seq, TreeItem{Key: append([]byte{}, i.Key...), Prio: i.Priority, Depth: int(d)})
			return true
		})
		e.tag("")
	})
	if e.Failed() {
		return
	}
	if err != nil {
		e.Failf("shape/visit-error", "VisitItemsAscendEx: %v", err)
		return
	}
	want := m.Sorted()
	if len(seq) != len(want) {
		e.Failf("C13/visible-tree/contents", "full visit delivered %d items, model has %d", len(seq), len(want))
		return
	}
	for i := range seq {
		if !bytes.Equal(seq[i].Key, want[i].Key) {
			e.Failf("C13/visible-tree/search-order", "position %d: key %s, sorted model has %s", i, kvString(seq[i].Key), kvString(want[i].Key))
			return
		}
	}
	var canon map[string]int
	if !m.HeapOff {
		if d, ok := m.Depths(); ok {
			canon = d
			e.Stats["shape.canonical-depths-checked"] += int64(len(seq))
		} else {
			e.Stats["shape.tied-priority-checks"]++ // heap clause on, shape clause off
		}
	} else {
		e.Stats["shape.heap-off-checks"]++
	}
	if s := CheckShape(seq, !m.HeapOff, canon); s != "" {
		e.Failf("C13/visible-tree/"+classify(s), "%s", s)
		return
	}
	e.Stats["shape.checks"]++
}

// TrueDepths returns the depth of every key of the original's collection
// name as introspected through the hook walk and the decoder (nil if the
// walk found a problem, which is then recorded as a violation).
func (e *Env) TrueDepths(name string) map[string]int {
	c, m := e.coll(name)
	if c == nil {
		return nil
	}
	// depths only change with the tree, not with what is cached: reuse the
	// result until the next mutating operation
	epoch := e.Stats["op.Set"] + e.Stats["op.Delete"] + e.Stats["op.Open"] + e.Stats["op.FlushRevert"] + e.Stats["op.SetCollection"] + e.Stats["op.RemoveCollection"]
	if e.depthCache != nil && e.depthEpoch == epoch && e.depthName == name {
		return e.depthCache
	}
	defer func() { e.depthEpoch, e.depthName = epoch, name }()
	e.depthCache = nil
	var img []byte
	if e.F != nil {
		img = e.F.Bytes()
	}
	e.walkOne("orig", c, m, gkvlite.VerifFreeNodes(), gkvlite.VerifFreeRootNodeLocs(), gkvlite.VerifFreeNodeLocs(), img)
	if e.Failed() || e.lastSeq == nil {
		return nil
	}
	res := map[string]int{}
	for _, it := range e.lastSeq {
		res[string(it.Key)] = it.Depth
	}
	e.depthCache = res
	return res
}

// CachedNodesMatchFile checks, for every cached node of c that has a file location, that the node
// in memory is a faithful copy of the 52-byte record at that location (item, left and right
// locations, both aggregates).  A written node is immutable, so this holds at every quiescent
// point, whatever readers, mutator and flusher did before.  Returns "" or a description.
func CachedNodesMatchFile(c *gkvlite.Collection, img []byte) string {
	res := ""
	n := 0
	gkvlite.VerifWalk(c, func(v gkvlite.VerifNode) {
		if res != "" || v.NodeOff <= 0 || v.NodeLen != 52 || v.NodeOff+52 > int64(len(img)) {
			return
		}
		n++
		r := img[v.NodeOff : v.NodeOff+52]
		u64 := func(b []byte) int64 {
			var x int64
			for _, c := range b {
				x = x<<8 | int64(c)
			}
			return x
		}
		io, il := u64(r[0:8]), uint32(u64(r[8:12]))
		lo, ll := u64(r[12:20]), uint32(u64(r[20:24]))
		ro, rl := u64(r[24:32]), uint32(u64(r[32:36]))
		nn, nb := uint64(u64(r[36:44])), uint64(u64(r[44:52]))
		if v.ItemOff != io || v.ItemLen != il || v.LeftOff != lo || v.LeftLen != ll || v.RightOff != ro || v.RightLen != rl || v.NumNodes != nn || v.NumBytes != nb {
			res = fmt.Sprintf("the cached node for file location %d (depth %d) is not the record stored there: in memory item=(%d,%d) left=(%d,%d) right=(%d,%d) numNodes=%d numBytes=%d, on file item=(%d,%d) left=(%d,%d) right=(%d,%d) numNodes=%d numBytes=%d",
				v.NodeOff, v.Depth, v.ItemOff, v.ItemLen, v.LeftOff, v.LeftLen, v.RightOff, v.RightLen, v.NumNodes, v.NumBytes, io, il, lo, ll, ro, rl, nn, nb)
		}
	})
	return res
}
