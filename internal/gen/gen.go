// Package gen holds the seeded generators: a small splittable PRNG and the
// key / value / priority universes used by all property drivers.
package gen

import (
	"encoding/binary"
	"fmt"
)

// R is a splitmix64 generator; cheap to fork, fully determined by its seed.
type R struct{ s uint64 }

func New(seed uint64) *R { return &R{s: seed ^ 0x9e3779b97f4a7c15} }

// Mix hashes several integers into a seed.
func Mix(vs ...uint64) uint64 {
	h := uint64(0xcbf29ce484222325)
	for _, v := range vs {
		h ^= v
		h *= 0x100000001b3
		h ^= h >> 29
		h *= 0xbf58476d1ce4e5b9
		h ^= h >> 32
	}
	return h
}

// MixS hashes a string into a seed component.
func MixS(s string) uint64 {
	h := uint64(14695981039346656037)
	for i := 0; i < len(s); i++ {
		h ^= uint64(s[i])
		h *= 1099511628211
	}
	return h
}

func (r *R) U64() uint64 {
	r.s += 0x9e3779b97f4a7c15
	z := r.s
	z = (z ^ (z >> 30)) * 0xbf58476d1ce4e5b9
	z = (z ^ (z >> 27)) * 0x94d049bb133111eb
	return z ^ (z >> 31)
}

func (r *R) Intn(n int) int {
	if n <= 0 {
		return 0
	}
	return int(r.U64() % uint64(n))
}

// Range returns a value in [lo,hi].
func (r *R) Range(lo, hi int) int { return lo + r.Intn(hi-lo+1) }
func (r *R) Bool() bool           { return r.U64()&1 == 1 }

// P returns true with probability pct/100.
func (r *R) P(pct int) bool { return r.Intn(100) < pct }
func (r *R) Fork() *R       { return New(r.U64()) }

func (r *R) Bytes(n int) []byte {
	b := make([]byte, n)
	for i := 0; i < n; i += 8 {
		var t [8]byte
		binary.LittleEndian.PutUint64(t[:], r.U64())
		copy(b[i:], t[:])
	}
	return b
}

// Perm returns a permutation of 0..n-1.
func (r *R) Perm(n int) []int {
	p := make([]int, n)
	for i := range p {
		p[i] = i
	}
	for i := n - 1; i > 0; i-- {
		j := r.Intn(i + 1)
		p[i], p[j] = p[j], p[i]
	}
	return p
}

// WeightedPick picks an index according to weights.
func (r *R) WeightedPick(w []int) int {
	t := 0
	for _, x := range w {
		t += x
	}
	if t == 0 {
		return 0
	}
	v := r.Intn(t)
	for i, x := range w {
		if v < x {
			return i
		}
		v -= x
	}
	return len(w) - 1
}

var (
	MagicBeg = []byte("0g1t2r")
	MagicEnd = []byte("3e4a5p")
)

// KeyClass selects the shape of a key universe.
type KeyClass int

const (
	KeysShort  KeyClass = iota // 1-3 byte keys incl. 0x00 / 0xff
	KeysPrefix                 // common-prefix families
	KeysMixed                  // mixture incl. boundary lengths 255/256/65535
	KeysMagic                  // keys containing the magic markers
	KeysDigits                 // fixed-width decimal
	KeysLong                   // non-periodic keys around the 240/256/4080/4096-byte boundaries, sharing long prefixes
	NumKeyClasses
)

// Keys returns n distinct valid keys of the given class.
func Keys(r *R, n int, class KeyClass) [][]byte {
	seen := map[string]bool{}
	var res [][]byte
	add := func(k []byte) {
		if len(k) == 0 || len(k) > 0xffff || seen[string(k)] {
			return
		}
		seen[string(k)] = true
		res = append(res, k)
	}
	// long keys are cut from one random family string so that they are not
	// periodic and differ from each other only in a few bytes near the end
	var fam []byte
	longKey := func(l int) []byte {
		if fam == nil {
			fam = r.Bytes(0xffff)
		}
		k := append([]byte{}, fam[:l]...)
		k[0] = byte('A' + r.Intn(3))
		for i, m := 0, r.Range(1, 4); i < m; i++ {
			k[l-1-r.Intn(min(l, 24))] = byte(r.Intn(256))
		}
		return k
	}
	for tries := 0; len(res) < n && tries < 100*n+100; tries++ {
		switch class {
		case KeysShort:
			l := r.Range(1, 3)
			k := make([]byte, l)
			for i := range k {
				switch r.Intn(4) {
				case 0:
					k[i] = 0
				case 1:
					k[i] = 0xff
				default:
					k[i] = byte('a' + r.Intn(4))
				}
			}
			add(k)
		case KeysPrefix:
			pre := []string{"user:", "user:1", "u", "idx/", ""}[r.Intn(5)]
			add([]byte(fmt.Sprintf("%s%d", pre, r.Intn(3*n+3))))
		case KeysMixed:
			switch r.Intn(12) {
			case 0:
				add(longKey(255))
			case 1:
				add(longKey(256))
			case 2:
				add(longKey(65535))
			case 3:
				add([]byte{byte(r.Intn(256))})
			case 4:
				add(longKey(r.Range(241, 700)))
			case 5:
				add(longKey(r.Range(4081, 6000)))
			default:
				add(r.Bytes(r.Range(1, 12)))
			}
		case KeysMagic:
			parts := [][]byte{MagicBeg, MagicEnd, []byte("k"), {0}, []byte("3e4a5"), []byte("p3e4a5p")}
			var k []byte
			for i, m := 0, r.Range(1, 3); i < m; i++ {
				k = append(k, parts[r.Intn(len(parts))]...)
			}
			k = append(k, byte('0'+r.Intn(10)))
			add(k)
		case KeysDigits:
			add([]byte(fmt.Sprintf("%04d", r.Intn(10*n+10))))
		case KeysLong:
			switch r.Intn(8) {
			case 0:
				add(longKey(r.Range(236, 260)))
			case 1, 2:
				add(longKey(r.Range(241, 900)))
			case 3:
				add(longKey(r.Range(4070, 4100)))
			case 4, 5:
				add(longKey(r.Range(4081, 9000)))
			default:
				add(r.Bytes(r.Range(1, 12)))
			}
		}
	}
	for i := 0; len(res) < n; i++ { // fallback, always terminates
		add([]byte(fmt.Sprintf("fill-%d", i)))
	}
	return res
}

// InvalidKeys are keys the store must reject.
func InvalidKey(r *R) []byte {
	switch r.Intn(4) {
	case 0:
		return nil
	case 1:
		return []byte{}
	case 2:
		return make([]byte, 65536)
	}
	return make([]byte, 70000)
}

// ValClass selects the shape of generated values.
type ValClass int

const (
	ValsShort ValClass = iota
	ValsMixed          // empty, short, 1-4KB, and (1 in 48) 64 KiB - 128 KiB incl. exact multiples of 64 KiB
	ValsMagic          // laden with magic markers / root fragments
	ValsBig            // 1-4KB always (for read-ahead visibility)
)

// Val returns a value that embeds the unique id.
func Val(r *R, class ValClass, id string, rootFrag []byte) []byte {
	switch class {
	case ValsShort:
		return []byte(id)
	case ValsMixed:
		switch r.Intn(6) {
		case 0:
			return []byte{}
		case 1:
			if r.Intn(8) == 0 {
				// around and at multiples of 64 KiB (exact total length)
				l := []int{65535, 65536, 65537, 70000, 131072}[r.Intn(5)]
				v := []byte(id + "|")
				return append(v, r.Bytes(l-len(v))...)
			}
			return append([]byte(id+"|"), r.Bytes(r.Range(1000, 4096))...)
		default:
			return append([]byte(id+"|"), r.Bytes(r.Range(0, 40))...)
		}
	case ValsBig:
		return append([]byte(id+"|"), r.Bytes(r.Range(1000, 4096))...)
	case ValsMagic:
		v := []byte(id + "|")
		for i, m := 0, r.Range(1, 4); i < m; i++ {
			switch r.Intn(8) {
			case 0:
				v = append(v, MagicEnd...)
				v = append(v, MagicEnd...)
			case 1:
				v = append(v, MagicBeg...)
				v = append(v, MagicBeg...)
			case 2:
				v = append(v, MagicEnd...)
			case 3:
				// plausible but inconsistent trailer: offset, length, end markers
				var t [12]byte
				binary.BigEndian.PutUint64(t[0:8], uint64(r.Intn(400)))
				binary.BigEndian.PutUint32(t[8:12], uint32(r.Range(40, 200)))
				v = append(v, t[:]...)
				v = append(v, MagicEnd...)
				v = append(v, MagicEnd...)
			case 4:
				if len(rootFrag) > 0 {
					v = append(v, rootFrag...) // byte-exact copy of an earlier root record
				}
			case 5:
				if len(rootFrag) > 4 {
					v = append(v, rootFrag[:r.Range(1, len(rootFrag)-1)]...) // truncated root record
				}
			case 6:
				if len(rootFrag) > 4 {
					v = append(v, rootFrag[r.Range(1, len(rootFrag)-1):]...) // tail of a root record
				}
			default:
				v = append(v, r.Bytes(r.Range(0, 20))...)
			}
		}
		return v
	}
	return []byte(id)
}

// PrioRegime selects how priorities are drawn.
type PrioRegime int

const (
	PrioDistinct PrioRegime = iota // distinct random
	PrioEqual                      // all equal
	PrioFew                        // few distinct values (ties)
	PrioRising
	PrioFalling
	PrioExtreme // 0 and MaxInt32 mixed in
	NumPrioRegimes
)

// PrioGen draws priorities under a regime; distinctness is tracked.
type PrioGen struct {
	Regime PrioRegime
	used   map[int32]bool
	n      int32
}

func NewPrioGen(reg PrioRegime) *PrioGen { return &PrioGen{Regime: reg, used: map[int32]bool{}} }

func (g *PrioGen) Next(r *R) int32 {
	g.n++
	switch g.Regime {
	case PrioEqual:
		return 7
	case PrioFew:
		return int32(r.Intn(3))
	case PrioRising:
		return g.n * 10
	case PrioFalling:
		return 1<<30 - g.n*10
	case PrioExtreme:
		switch r.Intn(4) {
		case 0:
			return 0
		case 1:
			return 1<<31 - 1
		}
	}
	for {
		p := int32(r.U64() & 0x7fffffff)
		if !g.used[p] {
			g.used[p] = true
			return p
		}
	}
}

// CollNames returns n distinct collection names of assorted shapes.
func CollNames(r *R, n int, exotic bool) []string {
	plain := []string{"a", "b", "c", "d", "main", "index", "x", "y"}
	ex := []string{"", "with \"quotes\"", "back\\slash", "tab\there", "uni-é-世界", "0g1t2r", "3e4a5p3e4a5p", "a/b", "{\"o\":1}", "\u0001ctl", "<html>&", "del\x7f", "nul\x00mid", "astral-\U0001F600", "sep\u2028line", "\x1funit"}
	seen := map[string]bool{}
	var res []string
	for len(res) < n {
		var s string
		if exotic && r.P(50) {
			s = ex[r.Intn(len(ex))]
		} else {
			s = plain[r.Intn(len(plain))]
		}
		if !seen[s] {
			seen[s] = true
			res = append(res, s)
		}
	}
	return res
}
