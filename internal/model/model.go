// Package model is the executable specification the monitors compare
// gkvlite against: plain maps plus sorting, deliberately naive.
package model

import (
	"bytes"
	"sort"
	"strconv"
	"strings"
)

// Cmp identifies a key comparator.
type Cmp string

const (
	CmpBytes  Cmp = "bytes"
	CmpRev    Cmp = "rev"
	CmpLenLex Cmp = "lenlex"
)

func rotCompare(k byte) func(a, b []byte) int {
	return func(a, b []byte) int {
		for i := 0; i < len(a) && i < len(b); i++ {
			x, y := a[i]+k, b[i]+k
			if x != y {
				if x < y {
					return -1
				}
				return 1
			}
		}
		switch {
		case len(a) < len(b):
			return -1
		case len(a) > len(b):
			return 1
		}
		return 0
	}
}

// Func returns the comparator function for an id.
func (c Cmp) Func() func(a, b []byte) int {
	switch c {
	case CmpRev:
		return func(a, b []byte) int { return bytes.Compare(b, a) }
	default:
		if strings.HasPrefix(string(c), "rot:") {
			// rotated alphabet: bytes are compared after adding k (mod 256); one closure
			// family, so different parameters share the same code pointer
			k, _ := strconv.Atoi(string(c)[4:])
			return rotCompare(byte(k))
		}
	case CmpLenLex:
		return func(a, b []byte) int {
			if len(a) != len(b) {
				if len(a) < len(b) {
					return -1
				}
				return 1
			}
			return bytes.Compare(a, b)
		}
	}
	return bytes.Compare
}

type Item struct {
	Val  []byte
	Prio int32
}

type KV struct {
	Key  []byte
	Val  []byte
	Prio int32
}

// Coll is one collection: a map plus its comparator.
type Coll struct {
	Items map[string]Item
	Cmp   Cmp
	// HeapOff is set once some key was overwritten with a lower priority than
	// it had: from then on heap order and canonical shape are not promised
	// (until the collection is empty again).
	HeapOff bool
}

func NewColl(c Cmp) *Coll {
	if c == "" {
		c = CmpBytes
	}
	return &Coll{Items: map[string]Item{}, Cmp: c}
}

func (c *Coll) Clone() *Coll {
	n := &Coll{Items: make(map[string]Item, len(c.Items)), Cmp: c.Cmp, HeapOff: c.HeapOff}
	for k, v := range c.Items {
		n.Items[k] = v // values are never mutated in place
	}
	return n
}

// ValidItem mirrors the documented rejection rule.
func ValidItem(key, val []byte, prio int32) bool {
	return key != nil && len(key) > 0 && len(key) <= 0xffff && val != nil && prio >= 0
}

func (c *Coll) Set(key, val []byte, prio int32) {
	if old, ok := c.Items[string(key)]; ok && prio < old.Prio {
		c.HeapOff = true
	}
	c.Items[string(key)] = Item{Val: val, Prio: prio}
}

func (c *Coll) Delete(key []byte) bool {
	_, ok := c.Items[string(key)]
	delete(c.Items, string(key))
	if len(c.Items) == 0 {
		c.HeapOff = false
	}
	return ok
}

func (c *Coll) Get(key []byte) (Item, bool) {
	it, ok := c.Items[string(key)]
	return it, ok
}

// Sorted returns all items in ascending comparator order.
func (c *Coll) Sorted() []KV {
	res := make([]KV, 0, len(c.Items))
	for k, v := range c.Items {
		res = append(res, KV{Key: []byte(k), Val: v.Val, Prio: v.Prio})
	}
	f := c.Cmp.Func()
	sort.Slice(res, func(i, j int) bool { return f(res[i].Key, res[j].Key) < 0 })
	return res
}

// Ascend returns the items with key >= target, ascending.
func (c *Coll) Ascend(target []byte) []KV {
	f := c.Cmp.Func()
	var res []KV
	for _, kv := range c.Sorted() {
		if f(kv.Key, target) >= 0 {
			res = append(res, kv)
		}
	}
	return res
}

// Descend returns the items with key < target, descending.
func (c *Coll) Descend(target []byte) []KV {
	f := c.Cmp.Func()
	var res []KV
	s := c.Sorted()
	for i := len(s) - 1; i >= 0; i-- {
		if f(s[i].Key, target) < 0 {
			res = append(res, s[i])
		}
	}
	return res
}

func (c *Coll) Totals() (n uint64, b uint64) {
	for k, v := range c.Items {
		n++
		b += uint64(len(k) + len(v.Val))
	}
	return
}

// Depths returns, for distinct priorities, the depth of every key in the
// unique treap (Cartesian tree) of the current contents; ok is false when
// two items share a priority.
func (c *Coll) Depths() (map[string]int, bool) {
	s := c.Sorted()
	seen := map[int32]bool{}
	for _, kv := range s {
		if seen[kv.Prio] {
			return nil, false
		}
		seen[kv.Prio] = true
	}
	res := map[string]int{}
	var rec func(lo, hi, d int)
	rec = func(lo, hi, d int) {
		if lo >= hi {
			return
		}
		top := lo
		for i := lo + 1; i < hi; i++ {
			if s[i].Prio > s[top].Prio {
				top = i
			}
		}
		res[string(s[top].Key)] = d
		rec(lo, top, d+1)
		rec(top+1, hi, d+1)
	}
	rec(0, len(s), 0)
	return res, true
}

// State is the content of a whole store.
type State struct {
	Colls map[string]*Coll
}

func NewState() *State { return &State{Colls: map[string]*Coll{}} }

func (s *State) Clone() *State {
	n := NewState()
	for k, c := range s.Colls {
		n.Colls[k] = c.Clone()
	}
	return n
}

func (s *State) Names() []string {
	res := make([]string, 0, len(s.Colls))
	for k := range s.Colls {
		res = append(res, k)
	}
	sort.Strings(res)
	return res
}

// Flushed is one durable state.
type Flushed struct {
	State   *State
	FileLen int64
}

// Store is the model of a writable store and its file.
type Store struct {
	Live    *State
	Flushes []Flushed // stack of successful, not reverted flushes
}

func NewStore() *Store { return &Store{Live: NewState()} }

// Flush records the live state as durable.
func (m *Store) Flush(fileLen int64) {
	m.Flushes = append(m.Flushes, Flushed{State: m.Live.Clone(), FileLen: fileLen})
}

// Durable is the state a re-open must show (empty state when never flushed).
func (m *Store) Durable() *State {
	if n := len(m.Flushes); n > 0 {
		return m.Flushes[n-1].State
	}
	return NewState()
}

func (m *Store) DurableLen() int64 {
	if n := len(m.Flushes); n > 0 {
		return m.Flushes[n-1].FileLen
	}
	return 0
}

// Reopen resets the live state to the last durable state.
func (m *Store) Reopen() { m.Live = m.Durable().Clone() }

// Revert pops the most recent flush and makes the one before it live.
func (m *Store) Revert() {
	if n := len(m.Flushes); n > 0 {
		m.Flushes = m.Flushes[:n-1]
	}
	m.Live = m.Durable().Clone()
}
