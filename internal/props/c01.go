package props

import (
	"fmt"

	"verif/internal/driver"
	"verif/internal/gen"
)

// C01: each collection behaves exactly like a sorted map.

var mixC01 = Mix{Set: 30, SetInvalid: 3, Delete: 12, Get: 8, GetItem: 8, Exist: 4, MinMax: 6, Totals: 4, Visit: 3,
	Flush: 6, Evict: 6, Reopen: 3, SetCollNew: 1}

func init() {
	register(&Prop{
		ID: "C01", Level: "exploration",
		Rule: "deep cases: 300-700 keys inserted in key order with equal / rising / falling priorities (the treap degenerates into a chain hundreds of nodes deep), flushed, re-opened cold or evicted, then every key looked up, the deepest ones deleted and re-set, everything read back. case i = history generated from H(seed,C01,i): 20-80 operations (Set/SetItem incl. overwrites at lower/equal/higher priority, invalid items, Delete, Get/GetItem/Exist/Min/Max/GetTotals/visits) over 1-3 collections, file-backed or memory-only, with Flush/EvictSomeItems/re-open placed between them; every return value is compared with a reference map and every open handle is fully read back every K steps. Cases with index < placement-cases enumerate, for one short base history, every gap x {Flush, Evict x3, Flush+Evict x3, Flush+Reopen}. Non-trivial = the history contains at least one overwrite, one delete of a present key and (file-backed) a flush/evict/re-open between two mutations of the same key, or (memory-only) an overwrite and a delete; distinct = distinct operation-trace hash.",
		Assumptions: []string{
			"single goroutine; items passed to SetItem are never modified afterwards",
			"comparators are total orders",
			"Set() priorities are learned through GetItem right after the call",
		},
		NumCases: func(tier string) int { return pick(tier, 1500, 40000) + pick(tier, 8, 120) },
		Run:      runC01,
		Floor: func(tier string, st map[string]int64) string {
			for _, k := range []string{"op.Set", "op.Delete.present", "op.Flush", "op.Evict", "op.Reopen", "op.Set.invalid", "op.Set.overwrite-lower", "op.Set.overwrite-equal", "op.Set.overwrite-higher", "evicted", "c01.deep-chain-cases"} {
				if st[k] == 0 {
					return "no " + k + " observed"
				}
			}
			return ""
		},
	})
}

func histHash(e *driver.Env) uint64 {
	h := uint64(1469598103934665603)
	for _, t := range e.Trace {
		h = gen.Mix(h, gen.MixS(t))
	}
	return h
}

func runC01(ctx *Ctx, idx int) Result {
	seed := CaseSeed(ctx.Seed, "C01", idx)
	r := gen.New(seed)
	SeedGlobalRand(seed)
	if idx >= pick(ctx.Tier, 1500, 40000) {
		return runC01Deep(ctx, idx, r)
	}
	placementCases := pick(ctx.Tier, 300, 6000)
	if idx < placementCases {
		return runC01Placement(ctx, idx, seed)
	}
	cfg := driver.Config{MemOnly: r.P(25), ReadbackK: []int{1, 1, 3, 7}[r.Intn(4)]}
	hc := HistCfg{
		Steps: r.Range(20, 80), NColls: r.Range(1, 3), NKeys: r.Range(4, 24),
		KeyClass: gen.KeyClass(r.Intn(int(gen.NumKeyClasses))), ValClass: gen.ValsMixed,
		Prio: gen.PrioRegime(r.Intn(int(gen.NumPrioRegimes))), Mix: mixC01, UseSetPct: 10,
	}
	if (hc.KeyClass == gen.KeysMixed || hc.KeyClass == gen.KeysLong) && hc.NKeys > 8 {
		hc.NKeys = 8 // keeps the 64 KiB keys affordable
	}
	h := NewHist(r, cfg, hc, fmt.Sprintf("c01-%d", idx))
	h.Run()
	if !h.E.Failed() {
		h.E.ReadbackAll(driver.RAll | driver.RAscKey | driver.RDescVal)
		h.E.AfterStep()
	}
	ctx.Add(h.E)
	nt := h.Feat["overwrite"] && h.Feat["delete"] && (cfg.MemOnly || h.Feat["placement-between-mutations-of-a-key"])
	return Result{Hash: histHash(h.E), NonTrivial: nt, Viol: violOf(h.E),
		Sample: map[string]interface{}{"index": idx, "mem_only": cfg.MemOnly, "features": featList(h.Feat), "ops": tail(h.E.Trace, 40)}}
}

// runC01Placement: systematic placement enumeration.  Case idx selects a base
// history (idx / slots) and within it the gap and the placement kind.
func runC01Placement(ctx *Ctx, idx int, seed uint64) Result {
	const nMut = 8
	const kinds = 4
	slots := (nMut + 1) * kinds
	base := idx / slots
	gap := (idx % slots) / kinds
	kind := idx % kinds
	br := gen.New(CaseSeed(ctx.Seed, "C01-base", base))
	SeedGlobalRand(CaseSeed(ctx.Seed, "C01-base", base))
	cfg := driver.Config{ReadbackK: 1}
	hc := HistCfg{Steps: 0, NColls: 1, NKeys: 4, KeyClass: gen.KeysShort, ValClass: gen.ValsMixed, Prio: gen.PrioRegime(br.Intn(int(gen.NumPrioRegimes)))}
	h := NewHist(br, cfg, hc, fmt.Sprintf("c01p-%d", idx))
	name := h.Names[0]
	e := h.E
	// a first flush so that evictions have something to evict
	pre := br.Bool()
	for i := 0; i <= nMut && !e.Failed(); i++ {
		if i == gap {
			switch kind {
			case 0:
				e.Flush()
			case 1:
				e.Evict(name, 3)
			case 2:
				e.Flush()
				e.Evict(name, 3)
			case 3:
				e.Flush()
				e.Reopen(gap%2 == 0)
			}
			h.placement()
			e.AfterStep()
		}
		if i == nMut {
			break
		}
		if i == 0 && pre {
			e.Flush()
		}
		k := h.key(name, 50)
		if br.P(30) {
			if _, ok := e.M.Live.Colls[name].Get(k); ok {
				h.Feat["delete"] = true
			}
			e.Delete(name, k)
		} else {
			m := e.M.Live.Colls[name]
			prio := h.Prios.Next(br)
			if old, ok := m.Get(k); ok {
				h.Feat["overwrite"] = true
				switch br.Intn(3) {
				case 0:
					if old.Prio > 0 {
						prio = old.Prio - 1
					}
				case 1:
					prio = old.Prio
				}
			}
			e.SetItem(name, k, h.nextVal(), prio, false)
		}
		e.AfterStep()
	}
	if !e.Failed() {
		e.ReadbackAll(driver.RAll | driver.RAscKey | driver.RDescVal)
		e.AfterStep()
	}
	ctx.Add(e)
	ctx.Stats["placement-cases"]++
	return Result{Hash: histHash(e), NonTrivial: h.Feat["overwrite"] || h.Feat["delete"], Viol: violOf(e),
		Sample: map[string]interface{}{"index": idx, "placement": map[string]int{"base": base, "gap": gap, "kind": kind}, "ops": tail(e.Trace, 30)}}
}

// runC01Deep: a treap that is a chain several hundred nodes deep (sorted insertion order under
// equal / monotone priorities), made cold, then looked up and mutated at the far end.
func runC01Deep(ctx *Ctx, idx int, r *gen.R) Result {
	cfg := driver.Config{ReadbackK: 0}
	e := driver.NewEnv(fmt.Sprintf("c01deep-%d", idx), cfg)
	e.SetCollection("d", "")
	n := r.Range(300, 700)
	regime := idx % 3 // 0 equal priorities, 1 rising with the key, 2 falling with the key
	desc := (idx/3)%2 == 1
	key := func(i int) []byte {
		if desc {
			i = n - 1 - i
		}
		return []byte(fmt.Sprintf("key-%05d", i))
	}
	for i := 0; i < n && !e.Failed(); i++ {
		p := int32(1000)
		switch regime {
		case 1:
			p = int32(1000 + i)
		case 2:
			p = int32(100000 - i)
		}
		e.SetItem("d", key(i), []byte(fmt.Sprintf("v%d", i)), p, false)
	}
	e.Flush()
	if r.Bool() {
		e.Reopen(r.Bool())
	} else {
		e.Evict("d", 40)
	}
	// every key, the far end of the insertion order first
	for i := n - 1; i >= 0 && !e.Failed(); i-- {
		switch i % 3 {
		case 0:
			e.Get(-1, "d", key(i))
		case 1:
			e.GetItem(-1, "d", key(i), i%2 == 0)
		case 2:
			e.Exist(-1, "d", key(i))
		}
		if i == n-40 {
			e.Reopen(false) // cold again for the rest
		}
	}
	if !e.Failed() {
		e.Reopen(false)
	}
	for i := n - 1; i > n-6 && !e.Failed(); i-- {
		e.Delete("d", key(i))
	}
	for i := 0; i < 3 && !e.Failed(); i++ {
		e.SetItem("d", key(n-1-i), []byte("again"), 1000, false)
	}
	e.MinMax(-1, "d", false, true)
	e.MinMax(-1, "d", true, false)
	if !e.Failed() {
		e.ReadbackAll(driver.RAll)
		e.AfterStep()
	}
	ctx.Stats["c01.deep-chain-cases"]++
	ctx.Add(e)
	return Result{Hash: gen.Mix(uint64(idx), uint64(n)), NonTrivial: true, Viol: violOf(e),
		Sample: map[string]interface{}{"index": idx, "deep_chain": true, "keys": n, "priority_regime": regime, "descending_insertion": desc, "ops": tail(e.Trace, 10)}}
}
