package props

import (
	"fmt"

	"verif/internal/driver"
	"verif/internal/gen"
)

// C02: a successful Flush makes the entire store state durable.

var mixC02 = Mix{Set: 30, Delete: 10, GetItem: 3, Visit: 2, Flush: 14, Evict: 4, Reopen: 5,
	SetCollNew: 3, SetCollExisting: 1, RemoveColl: 3, Snapshot: 2, SnapClose: 1, CollWrite: 2, FaultyFlush: 2, FlushRevert: 2}

func init() {
	register(&Prop{
		ID: "C02", Level: "exploration",
		Rule: "case = random history over 2-4 collections (plain and exotic names, boundary key/value sizes) with Flush density 5-30%, collection creation/removal between flushes, Collection.Write(), evictions, flushes that FAIL on one of their writes (outright or torn) and are retried, occasional FlushRevert (the expected durable state is then the flush before; in half of the cases a reader goroutine lists the collections in the middle of it), Collection.Write() called through a snapshot handle, one case in seven under an item-substituting BeforeItemWrite/AfterItemRead codec, and 0-5 re-opens after which the history continues on the re-opened store. After every successful Flush, after each of the following 6 steps, at every re-open and at the end, a SECOND store is opened on a copy of the current file image and its complete state (collection names, keys, values, priorities, totals, min/max) is compared with the model's state at the most recent successful Flush; the same image is decoded by the independent decoder. Unflushed work (incl. created/removed collections) must never be visible there. Size cases: (a) 1200-2500 collections, so that the root record alone is 60-130 KiB, flushed, re-opened and compared, then some removed / added and flushed again; (b) a flushed store followed by 5-7 MiB of unreferenced item records (Collection.Write() of 64 KiB values without Flush), re-opened: the last flush must be found behind that tail, and a Flush after the re-open must be durable too. Concurrent cases: the flusher runs next to the mutator under the deterministic scheduler and every image it produced must decode to versions that were current during that Flush. Non-trivial = at least two flushes with mutations between them, unflushed changes pending at some re-open comparison, and a collection created or removed; distinct = distinct op-trace hash.",
		Assumptions: []string{"collection names are valid UTF-8 (invalid UTF-8 names are a recorded input class)", "single goroutine",
			"a Flush that returned an error is not a successful Flush: its (possibly complete) root record is not an expected durable state; the full enumeration of fault points is C07's"},
		NumCases: func(tier string) int { return pick(tier, 1000, 40000) + pick(tier, 300, 9000) + pick(tier, 4, 40) },
		Run:      runC02,
		Floor: func(tier string, st map[string]int64) string {
			for _, k := range []string{"op.Flush", "op.Reopen", "reopen-compares", "decodes", "op.RemoveCollection", "op.CollWrite", "c02.pending-at-compare", "failed-flushes", "retried-flushes", "c02.concurrent-flush-cases", "reads-during-revert", "op.SnapCollWrite", "c02.many-collections-cases", "c02.large-tail-cases"} {
				if st[k] == 0 {
					return "no " + k + " observed"
				}
			}
			return ""
		},
	})
}

func runC02(ctx *Ctx, idx int) Result {
	seed := CaseSeed(ctx.Seed, "C02", idx)
	r := gen.New(seed)
	SeedGlobalRand(seed)
	if idx >= pick(ctx.Tier, 1000, 40000)+pick(ctx.Tier, 300, 9000) {
		return runC02Sizes(ctx, idx, r)
	}
	if idx >= pick(ctx.Tier, 1000, 40000) {
		// Flush running next to the mutator: what it made durable must be a state that was current during it
		res := runC14Concurrent(ctx, idx, r)
		if res.Viol != nil {
			res.Viol.Sig = "C02/" + res.Viol.Sig
		}
		ctx.Stats["c02.concurrent-flush-cases"]++
		return res
	}
	cfg := driver.Config{ReadbackK: []int{0, 3, 9}[r.Intn(3)], ReopenCheck: true, Decode: true, ReaderInRevert: idx%2 == 0}
	if idx%7 == 3 {
		cfg.CB = driver.CBSwap // a BeforeItemWrite/AfterItemRead pair that writes a substitute item
	}
	if idx%7 == 6 {
		cfg.CB = driver.CBReplaceOther // SetCollection on another existing name in the middle of every Flush
	}
	if idx%7 == 5 {
		cfg.CB = driver.CBTouchOther // another collection gets a new, content-identical version in the middle of every Flush
	}
	mix := mixC02
	mix.Flush = r.Range(5, 30)
	hc := HistCfg{Steps: r.Range(25, 90), NColls: r.Range(2, 4), NKeys: r.Range(4, 16), KeyClass: gen.KeyClass(r.Intn(int(gen.NumKeyClasses))),
		ValClass: []gen.ValClass{gen.ValsMixed, gen.ValsMagic}[r.Intn(2)], Prio: gen.PrioRegime(r.Intn(int(gen.NumPrioRegimes))), Mix: mix, Exotic: r.P(40), MaxSnaps: 1, UseSetPct: 5}
	if (hc.KeyClass == gen.KeysMixed || hc.KeyClass == gen.KeysLong) && hc.NKeys > 6 {
		hc.NKeys = 6
	}
	h := NewHist(r, cfg, hc, fmt.Sprintf("c02-%d", idx))
	e := h.E
	flushes := 0
	for i := 0; i < hc.Steps && !e.Failed(); i++ {
		nf := len(e.M.Flushes)
		h.Step()
		if len(e.M.Flushes) > nf {
			flushes++
		}
		e.AfterStep()
		if flushes > 0 && e.Stats["reopen-compares"] > 0 && !sameState(e) {
			h.Feat["pending-at-compare"] = true
			ctx.Stats["c02.pending-at-compare"]++
		}
	}
	e.ResumeAll()
	if !e.Failed() && len(e.M.Flushes) > 0 {
		driver.OpenCopyAndCompare(e, e.F.Bytes(), e.M.Durable(), "end-of-history")
		e.DecodeCheck("end-of-history")
	}
	ctx.Add(e)
	nt := flushes >= 2 && h.Feat["pending-at-compare"] && (h.Feat["setcoll-new"] || h.Feat["removecoll-nonempty"])
	return Result{Hash: histHash(e), NonTrivial: nt, Viol: violOf(e),
		Sample: map[string]interface{}{"index": idx, "flushes": flushes, "features": featList(h.Feat), "ops": tail(e.Trace, 40)}}
}

// sameState reports whether the live model equals the durable one (cheap structural check).
func sameState(e *driver.Env) bool {
	d := e.M.Durable()
	if len(d.Colls) != len(e.M.Live.Colls) {
		return false
	}
	for n, c := range e.M.Live.Colls {
		dc, ok := d.Colls[n]
		if !ok || len(dc.Items) != len(c.Items) {
			return false
		}
		for k, v := range c.Items {
			if w, ok := dc.Items[k]; !ok || w.Prio != v.Prio || string(w.Val) != string(v.Val) {
				return false
			}
		}
	}
	return true
}

// runC02Sizes: durable state whose root record is far larger than any buffer, and a last root
// record that lies megabytes before the end of the file.
func runC02Sizes(ctx *Ctx, idx int, r *gen.R) Result {
	cfg := driver.Config{ReadbackK: 0, ReopenCheck: false}
	e := driver.NewEnv(fmt.Sprintf("c02sz-%d", idx), cfg)
	what := ""
	if idx%2 == 0 {
		what = "many-collections"
		nc := r.Range(1200, 2500)
		name := func(i int) string { return fmt.Sprintf("collection-%05d-%s", i, "padding-padding"[:r.Intn(15)]) }
		var names []string
		for i := 0; i < nc && !e.Failed(); i++ {
			n := name(i)
			names = append(names, n)
			e.SetCollection(n, "")
			if i%7 == 0 {
				e.SetItem(n, []byte("k"), []byte(fmt.Sprintf("v%d", i)), int32(i+1), false)
			}
		}
		e.Flush()
		if !e.Failed() {
			driver.OpenCopyAndCompare(e, e.F.Bytes(), e.M.Durable(), "many-collections")
			e.Reopen(true)
		}
		for i := 0; i < 40 && !e.Failed(); i++ {
			e.RemoveCollection(names[r.Intn(len(names))])
		}
		for i := 0; i < 30 && !e.Failed(); i++ {
			n := name(nc + i)
			e.SetCollection(n, "")
			e.SetItem(n, []byte("late"), []byte("x"), 7, false)
		}
		e.Flush()
		if !e.Failed() {
			driver.OpenCopyAndCompare(e, e.F.Bytes(), e.M.Durable(), "many-collections-second-flush")
			e.Reopen(false)
			e.ReadbackAll(driver.RAscVal | driver.RTotals)
		}
		ctx.Stats["c02.many-collections-cases"]++
	} else {
		what = "large-tail"
		e.SetCollection("a", "")
		e.SetCollection("big", "")
		for i := 0; i < 20 && !e.Failed(); i++ {
			e.SetItem("a", []byte(fmt.Sprintf("k%02d", i)), []byte(fmt.Sprintf("v%d", i)), int32(100+i), false)
		}
		e.Flush()
		val := r.Bytes(65536)
		for i, n := 0, r.Range(80, 110); i < n && !e.Failed(); i++ {
			e.SetItem("big", []byte(fmt.Sprintf("b%03d", i)), val, int32(1000+i), false)
		}
		e.CollWrite("big") // megabytes of item and node records, no root record
		e.AfterStep()
		if !e.Failed() {
			driver.OpenCopyAndCompare(e, e.F.Bytes(), e.M.Durable(), "behind-a-large-tail")
			e.Reopen(true)
			e.ReadbackAll(driver.RAscVal | driver.RTotals)
		}
		for i := 0; i < 5 && !e.Failed(); i++ {
			e.SetItem("a", []byte(fmt.Sprintf("post%d", i)), []byte("p"), int32(5000+i), false)
		}
		e.Flush()
		if !e.Failed() {
			driver.OpenCopyAndCompare(e, e.F.Bytes(), e.M.Durable(), "flush-after-large-tail")
		}
		ctx.Stats["c02.large-tail-cases"]++
	}
	e.AfterStep()
	ctx.Add(e)
	return Result{Hash: gen.Mix(uint64(idx), 22), NonTrivial: true, Viol: violOf(e),
		Sample: map[string]interface{}{"index": idx, "sizes": what, "file_bytes": e.F.Size(), "ops": tail(e.Trace, 8)}}
}
