package props

import (
	"fmt"

	"verif/internal/decoder"
	"verif/internal/driver"
	"verif/internal/gen"
	"verif/internal/model"
	"verif/internal/vfile"
)

// C03: a crash at any point leaves the last completed Flush recoverable, atomically.

var mixC03 = Mix{Set: 30, Delete: 8, GetItem: 2, Flush: 10, Evict: 2, Reopen: 2, SetCollNew: 2, RemoveColl: 1, CollWrite: 2, FlushRevert: 1, FaultyFlush: 2}

func init() {
	register(&Prop{
		ID: "C03", Level: "fault_enumeration",
		Rule: "case = one seeded history with 2-6 flushes over 1-3 collections whose names, keys and values are laden with the magic markers, doubled markers, plausible-but-inconsistent root trailers and byte-exact / truncated copies of earlier root records of the same file; one history in six runs under each of: chunked ItemValWrite/ItemValRead, a value codec whose on-disk length is twice len(Val), a BeforeItemWrite/AfterItemRead pair that writes a substitute item with a checksum trailer; in a third of the histories the BeforeItemWrite callback re-sets an existing item of another collection to the value it already has, so that this collection gets a new unwritten version between the pin and the write phase of every Flush; some flushes fail on one of their writes (outright or torn) and are retried or not. From the StoreFile write log EVERY crash image is rebuilt: for every i (log entries 0..i-1 applied in issue order) and for the write in flight every byte length j in 0..len-1 (byte-granular). Each image is opened with NewStore and must show exactly the state of the last Flush all of whose writes are contained in the image (all collections together), or - if there is none - an empty store or the documented no-roots error; the open must respect the logical root-scan bound and not panic. A seed-chosen subset of images is additionally opened with junk tails appended (random bytes, zeros, doubled end marker alone, doubled end marker after a plausible but inconsistent (offset,length), a byte-exact copy of an older root record, a proper prefix of the next root record, and crafted envelopes whose framing is right for their position but whose body is not one JSON map (trailing garbage, two objects, truncated object, wrong version, first length field off by one); tails that the independent decoder recognises as a complete self-consistent root record are discarded), and on a subset the recovered store performs 3 mutations, a Flush and is re-opened again. evaluations counts images opened. Non-trivial = image lies strictly inside a Flush (between its first and last byte) or carries a junk tail; distinct = distinct (history, i, j, tail).",
		Assumptions: []string{
			"writes reach the file in issue order and a crash leaves a byte prefix of the write in flight (the property's own crash model); no reordering",
			"junk that is itself a complete, self-consistent root record is excluded, as the property states",
		},
		NumCases: func(tier string) int { return pick(tier, 48, 1500) },
		Run:      runC03,
		Floor: func(tier string, st map[string]int64) string {
			for _, k := range []string{"c03.images", "c03.images-mid-flush", "c03.images-mid-root-record", "c03.junk-tails", "c03.recovered-and-continued", "c03.no-flush-yet-images", "rootscan.iters", "c03.item-substituting-codec-cases", "c03.failed-writes-in-log", "other-collection-touched-during-flush"} {
				if st[k] == 0 {
					return "no " + k + " observed"
				}
			}
			return ""
		},
	})
}

type c03Event struct {
	logLen int          // write-log length after the operation
	state  *model.State // durable state from then on
	any    bool         // whether any flush is durable
}

func runC03(ctx *Ctx, idx int) Result {
	seed := CaseSeed(ctx.Seed, "C03", idx)
	r := gen.New(seed)
	SeedGlobalRand(seed)
	cfg := driver.Config{KeepLog: true, ScanBound: true}
	// the record layout under the item callbacks: separate (chunked) value writes, a value codec whose
	// on-disk length differs from len(Val), and a BeforeItemWrite/AfterItemRead pair that substitutes
	// the item written by one with a checksum trailer
	switch idx % 6 {
	case 1:
		cfg.CB = driver.CBVal
	case 3:
		cfg.CB = driver.CBSwap
		ctx.Stats["c03.item-substituting-codec-cases"]++
	case 5:
		cfg.CB = driver.CBValDouble
	case 2, 4:
		// another collection gets a new (content-identical) version in the middle of every Flush
		cfg.CB = driver.CBTouchOther
		ctx.Stats["c03.touch-other-collection-cases"]++
	}
	hc := HistCfg{Steps: r.Range(15, 40), NColls: r.Range(1, 3) + btoi(cfg.CB&driver.CBTouchOther != 0), NKeys: r.Range(3, 8),
		KeyClass: []gen.KeyClass{gen.KeysMagic, gen.KeysShort, gen.KeysPrefix, gen.KeysMagic, gen.KeysShort, gen.KeysPrefix, gen.KeysLong}[r.Intn(7)], ValClass: gen.ValsMagic,
		Prio: gen.PrioRegime(r.Intn(int(gen.NumPrioRegimes))), Mix: mixC03, Exotic: true}
	h := NewHist(r, cfg, hc, fmt.Sprintf("c03-%d", idx))
	e := h.E
	events := []c03Event{{0, model.NewState(), false}}
	flushes := 0
	for i := 0; (i < hc.Steps || flushes < 2) && i < 3*hc.Steps && !e.Failed() && !e.NoRootsStop; i++ {
		nf := len(e.M.Flushes)
		nrev := e.Stats["op.FlushRevert"]
		nre := e.Stats["op.Reopen"]
		if i >= hc.Steps {
			e.Flush()
		} else {
			h.Step()
		}
		if len(e.M.Flushes) != nf || e.Stats["op.FlushRevert"] != nrev {
			if len(e.M.Flushes) > nf {
				flushes++
			}
			events = append(events, c03Event{len(e.F.WriteLog()), e.M.Durable().Clone(), len(e.M.Flushes) > 0})
		}
		_ = nre
		e.AfterStep()
	}
	ctx.Add(e)
	if e.Failed() {
		return Result{Hash: histHash(e), Viol: violOf(e), Sample: map[string]interface{}{"index": idx, "ops": tail(e.Trace, 30)}}
	}
	wl := e.F.WriteLog()
	expect := func(applied int) c03Event {
		ev := events[0]
		for _, x := range events {
			if x.logLen <= applied {
				ev = x
			}
		}
		return ev
	}
	inFlush := func(i int) bool { return i < len(wl) && wl[i].Tag == "Flush" }
	var viol *Viol
	images, nontriv := 0, 0
	fail := func(sig, detail string, i, j int, tail string) {
		if viol == nil {
			viol = &Viol{Sig: sig, Detail: fmt.Sprintf("crash image: %d log entries applied + %d bytes of entry %d (%s, off %d, len %d), junk tail %q\n%s",
				i, j, i, tagOf(wl, i), offOf(wl, i), lenOf(wl, i), tail, detail), Trace: tailTrace(e.Trace, 40)}
		}
	}
	rp := &vfile.Replayer{}
	// older root records, for the junk tails
	var oldRoots [][]byte
	for i := 0; i <= len(wl) && viol == nil; i++ {
		cuts := []int{0}
		if i < len(wl) && wl[i].Kind == vfile.KWrite {
			// a write that failed in the history transferred only its first N bytes
			for j := 1; j < effLen(wl[i]); j++ {
				cuts = append(cuts, j)
			}
			if wl[i].Err {
				ctx.Stats["c03.failed-writes-in-log"]++
			}
		}
		ev := expect(i)
		for _, j := range cuts {
			if viol != nil {
				break
			}
			img := append([]byte{}, rp.Img...)
			if j > 0 {
				c := wl[i]
				if need := c.Off + int64(j); need > int64(len(img)) {
					img = append(img, make([]byte, need-int64(len(img)))...)
				}
				copy(img[c.Off:], c.Data[:j])
			}
			images++
			mid := inFlush(i) && (j > 0 || (i > 0 && inFlush(i-1) && events[len(events)-1].logLen != i && !isEventBoundary(events, i)))
			if mid {
				nontriv++
				ctx.Stats["c03.images-mid-flush"]++
				if j > 0 && decoderLooksLikeRoot(wl[i].Data) {
					ctx.Stats["c03.images-mid-root-record"]++
				}
			}
			if !ev.any {
				ctx.Stats["c03.no-flush-yet-images"]++
			}
			if d := c03Check(e, img, ev, false); d != nil {
				fail(d.Sig, d.Detail, i, j, "")
				break
			}
			// junk tails on a seed-determined subset
			if r.P(pick(ctx.Tier, 6, 12)) {
				for _, t := range junkTails(r, img, oldRoots, wl, i, j) {
					full := append(append([]byte{}, img...), t.b...)
					// discard tails that form a complete self-consistent root record
					_, e0, _, ok0 := decoder.FindLastRoot(img, int64(len(img)))
					_, e1, _, ok1 := decoder.FindLastRoot(full, int64(len(full)))
					if ok1 != ok0 || e1 != e0 {
						ctx.Stats["c03.junk-tails-discarded-as-valid-roots"]++
						continue
					}
					images++
					nontriv++
					ctx.Stats["c03.junk-tails"]++
					if d := c03Check(e, full, ev, false); d != nil {
						fail(d.Sig+"/junk="+t.name, d.Detail, i, j, t.name)
						break
					}
				}
			}
			if viol == nil && r.P(pick(ctx.Tier, 2, 6)) {
				if d := c03Check(e, img, ev, true); d != nil {
					fail(d.Sig, d.Detail, i, j, "")
					break
				}
				ctx.Stats["c03.recovered-and-continued"]++
			}
		}
		if i < len(wl) {
			if wl[i].Kind == vfile.KWrite && decoderLooksLikeRoot(wl[i].Data) {
				oldRoots = append(oldRoots, wl[i].Data)
			}
			rp.Apply(wl[i], effLen(wl[i]))
		}
	}
	ctx.Stats["c03.images"] += int64(images)
	ctx.Stats["evaluations.extra"] += int64(images)
	ctx.Stats["nontrivial.extra"] += int64(nontriv)
	return Result{Hash: gen.Mix(uint64(idx), uint64(images)), NonTrivial: nontriv > 0, Viol: viol,
		Sample: map[string]interface{}{"index": idx, "history": tail(e.Trace, 30), "log_entries": len(wl), "flushes": flushes, "images": images, "mid_flush_or_junk": nontriv}}
}

func effLen(c vfile.Call) int {
	if c.Err {
		return c.N
	}
	return len(c.Data)
}

func isEventBoundary(events []c03Event, i int) bool {
	for _, ev := range events {
		if ev.logLen == i {
			return true
		}
	}
	return false
}

func tagOf(wl []vfile.Call, i int) string {
	if i < len(wl) {
		return wl[i].Kind.String() + "/" + wl[i].Tag
	}
	return "end"
}
func offOf(wl []vfile.Call, i int) int64 {
	if i < len(wl) {
		return wl[i].Off
	}
	return -1
}
func lenOf(wl []vfile.Call, i int) int {
	if i < len(wl) {
		return wl[i].Len
	}
	return 0
}
func tailTrace(t []string, n int) []string { return tail(t, n) }

func decoderLooksLikeRoot(p []byte) bool {
	return len(p) > 44 && string(p[:12]) == "0g1t2r0g1t2r"
}

// c03Check opens the image and compares with the expected durable state.
func c03Check(parent *driver.Env, img []byte, ev c03Event, cont bool) *driver.Violation {
	codec := parent.Cfg.CB & (driver.CBVal | driver.CBSwap | driver.CBValDouble | driver.CBTouchOther)
	probe := driver.NewEnvCmps("probe", driver.Config{ScanBound: true, MemOnly: true, CB: codec}, parent.Cmps)
	probe.Cfg.MemOnly = false
	if ev.any {
		probe.M.Flushes = []model.Flushed{{State: ev.state}}
	}
	if !cont {
		driver.OpenCopyAndCompare(probe, img, ev.state, "crash-image")
		return probe.Viol
	}
	// recovered store must accept further mutations and flushes, durable in turn
	e := driver.NewEnvOnImage("recovered", driver.Config{ScanBound: true, Decode: true, CB: codec}, parent.Cmps, img, ev.state, ev.any)
	if e.Failed() || e.NoRootsStop {
		return e.Viol
	}
	e.ReadbackAll(driver.RAll)
	name := ""
	for _, n := range e.M.Live.Names() {
		name = n
	}
	if name == "" {
		name = "fresh"
		e.SetCollection(name, e.Cmps[name])
	}
	for k := 0; k < 3; k++ {
		e.SetItem(name, []byte(fmt.Sprintf("post-crash-%d", k)), []byte("3e4a5p3e4a5p-after"), int32(100+k), false)
	}
	e.Flush()
	e.AfterStep()
	if !e.Failed() {
		driver.OpenCopyAndCompare(e, e.F.Bytes(), e.M.Durable(), "after-recovery-flush")
		e.Reopen(false)
		e.ReadbackAll(driver.RAll)
		e.AfterStep()
	}
	if e.Failed() {
		e.Viol.Sig = "C03/recovered-store-continues/" + e.Viol.Sig
	}
	return e.Viol
}

type junk struct {
	name string
	b    []byte
}

func junkTails(r *gen.R, img []byte, oldRoots [][]byte, wl []vfile.Call, i, j int) []junk {
	var res []junk
	res = append(res, junk{"random", r.Bytes(r.Range(1, 60))})
	res = append(res, junk{"zeros", make([]byte, r.Range(1, 80))})
	me := append(append([]byte{}, gen.MagicEnd...), gen.MagicEnd...)
	res = append(res, junk{"magic-end-x2", me})
	// plausible but inconsistent trailer
	var t [12]byte
	off := int64(0)
	if len(img) > 100 {
		off = int64(r.Intn(len(img) - 50))
	}
	putU64(t[0:8], uint64(off))
	putU32(t[8:12], uint32(int64(len(img))+24-off+int64(r.Range(-3, 3))))
	res = append(res, junk{"trailer-inconsistent", append(append([]byte("xx"), t[:]...), me...)})
	// exact trailer arithmetic but pointing at non-root data
	putU32(t[8:12], uint32(int64(len(img))+24-off))
	res = append(res, junk{"trailer-consistent-length-no-header", append(t[:], me...)})
	if len(oldRoots) > 0 {
		o := oldRoots[r.Intn(len(oldRoots))]
		res = append(res, junk{"old-root-copy", append([]byte{}, o...)})
		if len(o) > 30 {
			res = append(res, junk{"old-root-tail", append([]byte{}, o[r.Range(1, len(o)-25):]...)})
		}
	}
	// crafted envelopes: both magics, version, both length fields and the offset field are right for
	// the position the record lands at, but the body is not one JSON map of root locations
	base := int64(len(img))
	for _, c := range []struct {
		name string
		body string
		ver  uint32
		dl   int32 // error added to the first length field
	}{
		{"envelope-json-trailing-garbage", `{"a":{"o":0,"l":0}},"b":{"o":1`, 4, 0},
		{"envelope-json-two-objects", `{}{"a":{"o":0,"l":0}}`, 4, 0},
		{"envelope-json-truncated", `{"a":{"o":0,"l":`, 4, 0},
		{"envelope-wrong-version", `{}`, 3, 0},
		{"envelope-first-length-off", `{}`, 4, 1},
	} {
		n := 12 + 4 + 4 + len(c.body) + 8 + 4 + 12
		rec := append([]byte{}, gen.MagicBeg...)
		rec = append(rec, gen.MagicBeg...)
		var u4 [4]byte
		putU32(u4[:], c.ver)
		rec = append(rec, u4[:]...)
		putU32(u4[:], uint32(int32(n)+c.dl))
		rec = append(rec, u4[:]...)
		rec = append(rec, c.body...)
		var u8 [8]byte
		putU64(u8[:], uint64(base))
		rec = append(rec, u8[:]...)
		putU32(u4[:], uint32(n))
		rec = append(rec, u4[:]...)
		rec = append(rec, me...)
		res = append(res, junk{c.name, rec})
	}
	// proper prefix of the next root record, if the history has one coming
	for k := i; k < len(wl); k++ {
		if wl[k].Kind == vfile.KWrite && decoderLooksLikeRoot(wl[k].Data) {
			d := wl[k].Data
			res = append(res, junk{"next-root-prefix", append([]byte{}, d[:r.Range(1, len(d)-1)]...)})
			break
		}
	}
	return res
}

func putU64(b []byte, v uint64) {
	for i := 0; i < 8; i++ {
		b[i] = byte(v >> (56 - 8*uint(i)))
	}
}
func putU32(b []byte, v uint32) {
	for i := 0; i < 4; i++ {
		b[i] = byte(v >> (24 - 8*uint(i)))
	}
}
