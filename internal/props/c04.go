package props

import (
	"fmt"

	"verif/internal/driver"
	"verif/internal/gen"
)

// C04: snapshots are isolated, read-only and harmless to the original.

var mixC04 = Mix{Set: 22, Delete: 8, Get: 3, GetItem: 3, MinMax: 2, Visit: 3, Flush: 7, Evict: 5,
	Snapshot: 8, SnapRead: 14, SnapClose: 6, SnapRevert: 3, SnapOfSnap: 3, SnapMutate: 3,
	SetCollNew: 2, SetCollExisting: 2, RemoveColl: 2, Close: 1, PinVisit: 2, ResumeVisit: 3, CollWrite: 2}

func permutations(n int) [][]int {
	var res [][]int
	var rec func(cur []int, used int)
	rec = func(cur []int, used int) {
		if len(cur) == n {
			res = append(res, append([]int{}, cur...))
			return
		}
		for i := 0; i < n; i++ {
			if used&(1<<i) == 0 {
				rec(append(cur, i), used|1<<i)
			}
		}
	}
	rec(nil, 0)
	return res
}

func init() {
	register(&Prop{
		ID: "C04", Level: "exploration",
		Rule: "case i < E: release-order enumeration - a base history creates 3 snapshots (one of them a snapshot of a snapshot) interleaved with mutations/flushes, then the 4 holders {S1,S2,S3,original} are released in one of the 4! orders (index selects base and order), with mutations of the original, node-reuse forcing in a scratch store and a complete re-read of every open handle after each release. Other cases: random histories interleaving original-side ops (mutations, Flush, Evict, SetCollection new/existing, RemoveCollection, Close+reopen, readers suspended in a callback) with snapshot-side ops (Snapshot, snapshot of snapshot, reads, FlushRevert on the snapshot, refused mutations, Close), up to 5 snapshots alive; after EVERY step every open snapshot and the original are completely re-read and compared with per-handle models, the hook walk checks that no reachable node is on a free list / zeroed / wrongly marked, and the file monitor rejects any write or truncate tagged with a snapshot operation. Parallel cases: 8 goroutines read through the original handle (in half of the cases a replacement handle from SetCollection on the existing name) and through 1-3 snapshots of it in true parallelism; the shared version's pin count must come out exactly one per open handle and everything must still read correctly. Non-trivial = a snapshot was read after the original was mutated and another handle was released; distinct = distinct op-trace hash.",
		Assumptions: []string{
			"snapshots created before a FlushRevert of the ORIGINAL are closed first (README declares them invalid)",
			"after a snapshot's own FlushRevert its expected contents are the flush before the last one as of its creation",
		},
		NumCases: func(tier string) int { return pick(tier, 24*8, 24*200) + pick(tier, 800, 25000) + pick(tier, 16, 400) },
		Run:      runC04,
		Floor: func(tier string, st map[string]int64) string {
			for _, k := range []string{"op.Snapshot", "op.SnapClose", "op.SnapRevert", "op.SnapMutate", "readbacks", "walks", "c04.release-orders", "churn.inserts", "op.SetCollection.existing", "op.RemoveCollection", "c04.parallel-handle-cases"} {
				if st[k] == 0 {
					return "no " + k + " observed"
				}
			}
			return ""
		},
	})
}

func runC04(ctx *Ctx, idx int) Result {
	seed := CaseSeed(ctx.Seed, "C04", idx)
	r := gen.New(seed)
	SeedGlobalRand(seed)
	nEnum := pick(ctx.Tier, 24*8, 24*200)
	if idx >= nEnum+pick(ctx.Tier, 800, 25000) {
		// snapshots and the (possibly replaced) original handle used by parallel readers: the shared
		// version's pin count must be conserved and every handle must keep reading its contents
		res := runC10Parallel(ctx, idx, r)
		if res.Viol != nil {
			res.Viol.Sig = "C04/parallel-handles/" + res.Viol.Sig
		}
		ctx.Stats["c04.parallel-handle-cases"]++
		return res
	}
	if idx < nEnum {
		return runC04Release(ctx, idx, r)
	}
	cfg := driver.Config{MemOnly: r.P(20), ReadbackK: 1, Walk: true, Churn: r.P(60)}
	hc := HistCfg{Steps: r.Range(25, 70), NColls: r.Range(1, 3), NKeys: r.Range(4, 12), KeyClass: gen.KeysShort, ValClass: gen.ValsMixed,
		Prio: gen.PrioRegime(r.Intn(int(gen.NumPrioRegimes))), Mix: mixC04, MaxSnaps: 5}
	if idx%3 == 0 {
		// comparators of one closure family, supplied through KeyCompareForCollection at re-loads; a
		// name may get another member when its collection is replaced while empty or re-created, so
		// that what is durable under a name and what is live under it can be ordered differently
		hc.RotCmp, hc.KeyClass = true, gen.KeysDigits
		hc.Mix.SetCollExisting, hc.Mix.RemoveColl, hc.Mix.SetCollNew, hc.Mix.Delete = 4, 4, 5, 14
		ctx.Stats["c04.comparator-family-cases"]++
	}
	h := NewHist(r, cfg, hc, fmt.Sprintf("c04-%d", idx))
	h.Run()
	ctx.Add(h.E)
	nt := h.Feat["snapshot"] && h.Feat["snapread"] && (h.Feat["snapclose"] || h.Feat["close"]) && (h.Feat["overwrite"] || h.Feat["delete"])
	return Result{Hash: histHash(h.E), NonTrivial: nt, Viol: violOf(h.E),
		Sample: map[string]interface{}{"index": idx, "mem_only": cfg.MemOnly, "features": featList(h.Feat), "ops": tail(h.E.Trace, 40)}}
}

func runC04Release(ctx *Ctx, idx int, r *gen.R) Result {
	perms := permutations(4)
	base := idx / len(perms)
	order := perms[idx%len(perms)]
	br := gen.New(CaseSeed(ctx.Seed, "C04-base", base))
	SeedGlobalRand(CaseSeed(ctx.Seed, "C04-base", base))
	cfg := driver.Config{MemOnly: base%4 == 3, ReadbackK: 1, Walk: true, Churn: true}
	hc := HistCfg{NColls: 1 + base%2, NKeys: 6, KeyClass: gen.KeysShort, ValClass: gen.ValsShort, Prio: gen.PrioDistinct,
		Mix: Mix{Set: 10, Delete: 4, Flush: 2, Evict: 2, CollWrite: 2}}
	h := NewHist(br, cfg, hc, fmt.Sprintf("c04r-%d", idx))
	e := h.E
	steps := func(n int) {
		for i := 0; i < n && !e.Failed() && e.S != nil; i++ {
			h.Step()
			e.AfterStep()
		}
	}
	steps(br.Range(3, 6))
	e.Snapshot(-1) // S1
	e.AfterStep()
	steps(br.Range(1, 4))
	e.Snapshot(-1) // S2
	e.AfterStep()
	steps(br.Range(0, 3))
	e.Snapshot(br.Intn(2)) // S3 = snapshot of a snapshot
	e.AfterStep()
	steps(br.Range(1, 3))
	for _, who := range order {
		if e.Failed() {
			break
		}
		if who < 3 {
			e.SnapClose(who)
		} else {
			// release the original: Close(); the snapshots must stay readable
			e.CurOp = "Close(original)"
			e.Trace = append(e.Trace, e.CurOp)
			e.CloseOriginalOnly()
		}
		e.AfterStep()
		steps(2) // mutate the original if it is still open
		if e.S == nil && !e.Failed() {
			e.ReadbackAll(driver.RAll) // only snapshots remain
			e.WalkCheck()
		}
	}
	ctx.Stats["c04.release-orders"]++
	ctx.Add(e)
	return Result{Hash: histHash(e), NonTrivial: true, Viol: violOf(e),
		Sample: map[string]interface{}{"index": idx, "release_order": order, "ops": tail(e.Trace, 40)}}
}
