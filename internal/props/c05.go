package props

import (
	"fmt"
	"runtime"
	"strings"
	"sync/atomic"
	"time"

	"verif/internal/conc"
	"verif/internal/gen"
	"verif/internal/model"
	"verif/internal/sched"
)

// C05: concurrent readers each see one consistent version beside writer and flusher.

func c05Counts(tier string) (random, enum, free int) {
	return pick(tier, 3000, 150000), pick(tier, 2, 6), pick(tier, 64, 6000)
}

func init() {
	register(&Prop{
		ID: "C05", Level: "exploration", Race: true,
		RaceFrom: func(tier string) int { r, e, _ := c05Counts(tier); return r + e },
		Rule:     "programs: one mutator (6-40 Set/Delete, occasional EvictSomeItems), one flusher (1-6 Flush) and 1-4 readers (Get, Min/Max, GetTotals, whole or early-stopped ascending/descending visits whose callbacks are yield points, Snapshot+read+Close) over 1-3 collections of 3-6 keys, memory-only or file-backed with the tree cached, evicted or freshly re-opened (so readers block in file I/O). Every client call is recorded with call/return stamps of one logical clock and unique written values. Deterministic cases run under a yield-point scheduler (exactly one worker runs; switches only at verif hooks between pin and first read / between rebuild and rootCAS / after publication / between collections inside Flush and Snapshot, at every file call, every visitor callback and every operation boundary): seeded random walks, PCT schedules (d <= 3 priority change points), and for tiny templates (3 mutations, 1 flush over 2 collections, 1 visit) a preemption-bounded ENUMERATION of schedules (<= 2 preemptions quick, <= 3 thorough, capped). Free-running cases run the same programs with real parallelism under the Go race detector with seeded delays at the hooks. Offline oracles per history: (1) version-interval checker - each reader result must equal the answer of ONE version whose currency window [call of the mutation creating it, return of the mutation replacing it] intersects the call; (2) porcupine on the per-key Get/Set/Delete register sub-history; (3) every mutator/flusher call returned nil and the final contents equal all mutations applied (no lost update); (4) flush-order checker - the image after each Flush is decoded independently and there must be instants t_a <= t_b <= ... in collection-name order inside the Flush, each inside the currency window of a version with exactly the persisted contents; (5) no panic, no hang; (6) race reports are classified: reports on the deliberately unsynchronised lazy-load caches are counted, anything touching version pins, reclaim marks, free lists or the collection map is a violation. evaluations counts executions (schedules). Non-trivial = a reader call overlapped at least one publication; distinct = distinct schedule hash ((worker, yield point) sequence) or history hash.",
		Assumptions: []string{
			"documented usage only: one mutator, one flusher, N readers per store; EvictSomeItems only from the mutator; a concurrency-safe StoreFile",
			"'for all interleavings' is explored, not exhausted, except for the preemption-bounded sub-space of the tiny templates; the deterministic scheduler does not pre-empt inside gkvlite's lock regions (the free-running runs do)",
			"benign data races on the lazy-load caches (nodeLoc.loc/node, itemLoc.loc/item; the maintainers' nodeMutex/itemLocMutex switches are off) are not violations of this behavioural property",
		},
		NumCases: func(tier string) int { r, e, f := c05Counts(tier); return r + e + f },
		Run:      runC05,
		Floor: func(tier string, st map[string]int64) string {
			for _, k := range []string{"c05.executions", "c05.distinct-schedules", "c05.reader-overlapped-publication", "c05.reader-pinned-across-2-publications", "c05.flush-pinned-then-later-collection-mutated", "c05.enum-executions", "c05.free-running-histories", "c05.porcupine-ok", "c05.flushes-decoded", "c05.cold-file-programs", "c05.point/mut.built", "c05.point/read.pinned", "c05.point/flush.pin", "c05.point/io:ReadAt", "c05.point/cb"} {
				if st[k] == 0 {
					return "no " + k + " observed"
				}
			}
			return ""
		},
	})
}

func c05Program(r *gen.R, tiny bool, variant int) *conc.Program {
	p := &conc.Program{Initial: map[string][]model.KV{}}
	nc := r.Range(1, 3)
	nk := r.Range(3, 6)
	if tiny {
		nc, nk = 2, 3
	}
	p.Names = []string{"a", "b", "c"}[:nc]
	keys := [][]byte{[]byte("k1"), []byte("k2"), []byte("k3"), []byte("k4"), []byte("k5"), []byte("k6")}[:nk]
	pr := int32(1000)
	prio := func() int32 {
		pr += int32(r.Range(1, 50))
		if r.P(30) {
			return pr - int32(r.Range(0, 900)) // sometimes lower than earlier ones
		}
		return pr
	}
	for _, n := range p.Names {
		for _, k := range keys {
			if r.P(60) {
				p.Initial[n] = append(p.Initial[n], model.KV{Key: k, Val: []byte("init-" + n + "-" + string(k)), Prio: prio()})
			}
		}
	}
	p.MemOnly = r.P(25)
	if !p.MemOnly {
		p.Cold = r.Intn(3)
	}
	if tiny {
		p.MemOnly = variant%3 == 0
		p.Cold = variant % 3 // 0 -> memory-only, 1 evicted, 2 re-opened
		if p.MemOnly {
			p.Cold = 0
		}
	}
	nm := r.Range(6, 40)
	nf := r.Range(1, 6)
	nr := r.Range(1, 4)
	if tiny {
		nm, nf, nr = 3, 1, 1
	}
	for i := 0; i < nm; i++ {
		st := conc.Step{Coll: p.Names[r.Intn(nc)], Key: keys[r.Intn(nk)], Prio: prio(), K: conc.MSet}
		switch {
		case r.P(28):
			st.K = conc.MDelete
		case r.P(8) && !tiny:
			st.K = conc.MEvict
		}
		p.Mutator = append(p.Mutator, st)
	}
	for i := 0; i < nf; i++ {
		p.Flusher = append(p.Flusher, conc.Step{K: conc.FFlush})
	}
	for j := 0; j < nr; j++ {
		var rs []conc.Step
		n := r.Range(2, 10)
		if tiny {
			n = 1
		}
		for i := 0; i < n; i++ {
			st := conc.Step{Coll: p.Names[r.Intn(nc)], Key: keys[r.Intn(nk)], WithVal: r.Bool(), Stop: -1}
			switch x := r.Intn(10); {
			case tiny || x < 4:
				st.K = conc.RVisit
				st.Desc = r.Bool()
				if st.Desc {
					st.Key = []byte("zzzz")
				} else if r.P(60) {
					st.Key = nil
				}
				if r.P(30) {
					st.Stop = r.Intn(nk)
				}
			case x < 6:
				st.K = conc.RGet
			case x < 7:
				st.K = []conc.OpKind{conc.RMin, conc.RMax}[r.Intn(2)]
			case x < 8:
				st.K = conc.RTotals
			default:
				st.K = conc.RSnapshot
			}
			rs = append(rs, st)
		}
		p.Readers = append(p.Readers, rs)
	}
	if !tiny && r.P(8) {
		// a few values of 64 KiB and more (size-dependent paths: value records longer than any buffer)
		for i, n := 0, r.Range(1, 3); i < n; i++ {
			if st := &p.Mutator[r.Intn(len(p.Mutator))]; st.K == conc.MSet {
				st.Big = r.Range(65536, 70000)
				p.BigVals++
			}
		}
	}
	return p
}

// c05HotKeyProgram: one collection on a cold file; the mutator overwrites the same few keys again
// and again with values of equal length (unflushed items overwritten before they were ever
// written), with evictions in between so that its descents block in file reads; the readers take
// snapshots and run key-only visits (which evict the path), the flusher flushes repeatedly.
func c05HotKeyProgram(r *gen.R) *conc.Program {
	p := &conc.Program{Initial: map[string][]model.KV{}, Names: []string{"a"}, Cold: 1, YieldingCmp: r.P(60)}
	keys := [][]byte{[]byte("k1"), []byte("k2"), []byte("k3"), []byte("k4"), []byte("k5"), []byte("k6"), []byte("k7")}
	prios := map[string]int32{}
	for _, k := range keys {
		prios[string(k)] = int32(r.Range(1, 100000))
		p.Initial["a"] = append(p.Initial["a"], model.KV{Key: k, Val: []byte("init-a-" + string(k)), Prio: prios[string(k)]})
	}
	// the hot keys are the two with the lowest priorities: they sit below other nodes
	hot := [][]byte{keys[0], keys[1]}
	for _, k := range keys {
		if prios[string(k)] < prios[string(hot[0])] {
			hot[1], hot[0] = hot[0], k
		} else if string(k) != string(hot[0]) && prios[string(k)] < prios[string(hot[1])] {
			hot[1] = k
		}
	}
	for i, n := 0, r.Range(12, 36); i < n; i++ {
		k := hot[0]
		if r.P(25) {
			k = hot[1]
		}
		st := conc.Step{Coll: "a", Key: k, Prio: prios[string(k)], K: conc.MSet, Fixed: true}
		if r.P(20) {
			st.K = conc.MEvict
		}
		p.Mutator = append(p.Mutator, st)
	}
	for i, n := 0, r.Range(1, 3); i < n; i++ {
		p.Flusher = append(p.Flusher, conc.Step{K: conc.FFlush})
	}
	for j, nr := 0, r.Range(2, 4); j < nr; j++ {
		var rs []conc.Step
		for i, n := 0, r.Range(4, 10); i < n; i++ {
			st := conc.Step{Coll: "a", Key: hot[0], Stop: -1}
			switch (i + j) % 3 {
			case 0:
				st.K = conc.RVisit // key-only, complete: evicts the written items it passes
				st.Key = nil
			default:
				st.K = conc.RSnapshot
			}
			rs = append(rs, st)
		}
		p.Readers = append(p.Readers, rs)
	}
	return p
}

// windowHunter is a scheduling strategy for the hot-key programs: while the mutator is in the
// middle of an operation (it yielded at a file call) it prefers to let a reader or the flusher
// start something, and once a reader has just taken a snapshot (its next yield is "snapread") it
// prefers to let the mutator finish - the interleavings in which another party pins a version
// between two steps of one mutation.  Everything else is a random walk that tends to stay.
type windowHunter struct{ next func(int) int }

func (w *windowHunter) Pick(step int, cur int, runnable []int, point string) int {
	has := func(id int) bool {
		for _, x := range runnable {
			if x == id {
				return true
			}
		}
		return false
	}
	if cur == 0 && strings.HasPrefix(point, "io") && w.next(100) < 75 {
		var others []int
		for _, x := range runnable {
			if x != 0 {
				others = append(others, x)
			}
		}
		if len(others) > 0 {
			return others[w.next(len(others))]
		}
	}
	if cur >= 1 && (point == "snapread" || point == "flush.pin" || point == "flush.coll") && has(0) && w.next(100) < 75 {
		return 0
	}
	if has(cur) && w.next(100) < 70 {
		return cur
	}
	return runnable[w.next(len(runnable))]
}

type c05Outcome struct {
	viol   *Viol
	hash   uint64
	nontr  bool
	incon  string
	sched  *sched.Sched
	sample interface{}
}

func c05Execute(ctx *Ctx, p *conc.Program, mode conc.Mode, label string) c05Outcome {
	h, f := conc.Run(p, mode)
	fs, st, incon := conc.Check(p, h, 60*time.Second)
	out := c05Outcome{incon: incon}
	ctx.Stats["c05.executions"]++
	ctx.Stats["c05.reader-ops"] += int64(st.ReaderOps)
	if st.CandidatesMax >= 2 {
		ctx.Stats["c05.reader-overlapped-publication"]++
		out.nontr = true
	}
	ctx.Stats["c05.reader-pinned-across-2-publications"] += int64(st.PinnedAcross2)
	ctx.Stats["c05.flush-pinned-then-later-collection-mutated"] += int64(st.FlushBetweenPins)
	ctx.Stats["c05.flushes-decoded"] += int64(len(h.Flushes))
	if incon == "" && len(fs) == 0 {
		ctx.Stats["c05.porcupine-ok"]++
	}
	if !p.MemOnly && p.Cold > 0 {
		ctx.Stats["c05.cold-file-programs"]++
	}
	if f != nil && len(f.Violations) > 0 {
		sig := f.Violations[0]
		if i := strings.Index(sig, ": "); i > 0 {
			sig = sig[:i]
		}
		fs = append(fs, conc.Finding{Sig: "C05/file-rule/" + sig, Detail: f.Violations[0]})
	}
	if mode.Sched != nil {
		for k, v := range mode.Sched.PointHits {
			ctx.Stats["c05.point/"+k] += int64(v)
		}
		out.hash = mode.Sched.Hash()
		out.sched = mode.Sched
	} else {
		hh := uint64(17)
		for _, e := range h.Events {
			hh = gen.Mix(hh, uint64(e.Call), uint64(e.Ret), uint64(e.Worker))
		}
		out.hash = hh
	}
	if len(fs) > 0 {
		var trace []string
		trace = append(trace, fmt.Sprintf("program: %d collections, memOnly=%v cold=%d", len(p.Names), p.MemOnly, p.Cold))
		for _, s := range p.Mutator {
			trace = append(trace, "  M: "+s.String())
		}
		for i, rs := range p.Readers {
			for _, s := range rs {
				trace = append(trace, fmt.Sprintf("  R%d: %s", i, s.String()))
			}
		}
		if mode.Sched != nil {
			var ch []int
			for _, d := range mode.Sched.Decisions {
				ch = append(ch, d.Chosen)
			}
			trace = append(trace, fmt.Sprintf("schedule (choice list, workers 0=M 1=F 2..=R): %v", ch))
		}
		out.viol = &Viol{Sig: fs[0].Sig, Detail: "[" + label + "] " + fs[0].Detail, Trace: trace}
	}
	return out
}

func minInt(a, b int) int {
	if a < b {
		return a
	}
	return b
}

var c05Seen = map[uint64]bool{}

func runC05(ctx *Ctx, idx int) Result {
	nr, ne, _ := c05Counts(ctx.Tier)
	seed := CaseSeed(ctx.Seed, "C05", idx)
	r := gen.New(seed)
	SeedGlobalRand(seed)
	switch {
	case idx < nr: // deterministic: random / PCT
		p := c05Program(r, false, 0)
		if idx%4 == 3 {
			p = c05HotKeyProgram(r)
			ctx.Stats["c05.hot-key-programs"]++
		}
		var strat sched.Strategy
		label := "random-walk"
		if idx%2 == 0 {
			strat = &sched.Random{Next: r.Intn, Stick: []int{0, 50, 80, 95}[r.Intn(4)]}
		} else {
			label = "PCT"
			nw := 2 + len(p.Readers)
			pct := &sched.PCT{Prio: make([]int, nw), Changes: map[int]int{}}
			for i, v := range r.Perm(nw) {
				pct.Prio[i] = v + 10
			}
			for d, n := 0, r.Intn(4); d < n; d++ {
				pct.Changes[r.Intn(400)] = d
			}
			strat = pct
		}
		s := sched.New(strat)
		o := c05Execute(ctx, p, conc.Mode{Sched: s}, label)
		ctx.Stats["evaluations.extra"]++
		if idx%4 == 3 {
			// hot-key programs: three more schedules of the same program
			for k := 0; k < 3 && o.viol == nil; k++ {
				var st2 sched.Strategy = &sched.Random{Next: r.Intn, Stick: 30}
				if k > 0 {
					st2 = &windowHunter{next: r.Intn}
				}
				s2 := sched.New(st2)
				o2 := c05Execute(ctx, p, conc.Mode{Sched: s2}, "random-walk")
				ctx.Stats["evaluations.extra"]++
				if o2.viol != nil {
					o, s = o2, s2
				}
			}
		}
		if !c05Seen[o.hash] {
			c05Seen[o.hash] = true
			ctx.Stats["c05.distinct-schedules"]++
			if o.nontr {
				ctx.Stats["nontrivial.extra"]++ // distinct schedule AND a reader overlapped a publication
			}
		}
		return Result{Hash: o.hash, NonTrivial: o.nontr, Viol: o.viol, Inconclusive: o.incon,
			Sample: map[string]interface{}{"index": idx, "mode": label, "workers": 2 + len(p.Readers), "decisions": len(s.Decisions), "mutations": len(p.Mutator), "flushes": len(p.Flusher)}}
	case idx < nr+ne: // preemption-bounded enumeration on a tiny template
		return runC05Enum(ctx, idx, idx-nr)
	}
	// free running under the race detector
	p := c05Program(r, false, 0)
	var ctr uint64
	delay := func(point string) {
		x := atomic.AddUint64(&ctr, 0x9e3779b97f4a7c15)
		switch {
		case x>>58 == 0:
			time.Sleep(time.Duration(20+x%200) * time.Microsecond)
		case x>>61 == 0:
			runtime.Gosched()
		}
	}
	o := c05Execute(ctx, p, conc.Mode{Delay: delay}, "free-running")
	ctx.Stats["c05.free-running-histories"]++
	ctx.Stats["evaluations.extra"]++
	if o.nontr && !c05Seen[o.hash] {
		c05Seen[o.hash] = true
		ctx.Stats["nontrivial.extra"]++
	}
	return Result{Hash: o.hash, NonTrivial: o.nontr, Viol: o.viol, Inconclusive: o.incon,
		Sample: map[string]interface{}{"index": idx, "mode": "free-running", "workers": 2 + len(p.Readers), "mutations": len(p.Mutator)}}
}

// runC05Enum enumerates all schedules of a tiny program with a bounded number of preemptions.
func runC05Enum(ctx *Ctx, idx, tmpl int) Result {
	bound := pick(ctx.Tier, 2, 3)
	capExec := pick(ctx.Tier, 6000, 120000)
	pseed := CaseSeed(ctx.Seed, "C05-template", tmpl)
	type item struct{ prefix []int }
	stack := []item{{nil}}
	execs, distinct, nontr := 0, 0, 0
	seen := map[uint64]bool{}
	var viol *Viol
	exhausted := true
	for len(stack) > 0 && viol == nil {
		if execs >= capExec {
			exhausted = false
			break
		}
		it := stack[len(stack)-1]
		stack = stack[:len(stack)-1]
		SeedGlobalRand(pseed)
		p := c05Program(gen.New(pseed), true, tmpl)
		s := sched.New(&sched.Prefix{Choices: it.prefix})
		o := c05Execute(ctx, p, conc.Mode{Sched: s}, fmt.Sprintf("enumeration template %d", tmpl))
		execs++
		if !seen[o.hash] {
			seen[o.hash] = true
			distinct++
			if o.nontr {
				nontr++ // distinct schedule AND non-trivial
			}
		}
		if o.viol != nil {
			viol = o.viol
			break
		}
		// children: deviate at every decision point beyond the forced prefix
		D := s.Decisions
		pre := 0
		for k := 0; k < len(D); k++ {
			d := D[k]
			curRunnable := false
			for _, x := range d.Runnable {
				if x == d.Cur {
					curRunnable = true
				}
			}
			if k >= len(it.prefix) {
				for _, alt := range d.Runnable {
					if alt == d.Chosen {
						continue
					}
					cost := 0
					if curRunnable && alt != d.Cur {
						cost = 1
					}
					if pre+cost <= bound {
						np := make([]int, k+1)
						for j := 0; j < k; j++ {
							np[j] = D[j].Chosen
						}
						np[k] = alt
						stack = append(stack, item{np})
					}
				}
			}
			if curRunnable && d.Chosen != d.Cur {
				pre++
			}
		}
	}
	ctx.Stats["c05.enum-executions"] += int64(execs)
	ctx.Stats["c05.distinct-schedules"] += int64(distinct)
	ctx.Stats["evaluations.extra"] += int64(execs)
	ctx.Stats["nontrivial.extra"] += int64(nontr)
	if exhausted && viol == nil {
		ctx.Stats["c05.enum-templates-exhausted"]++
	}
	return Result{Hash: gen.Mix(uint64(tmpl), uint64(execs)), NonTrivial: nontr > 0, Viol: viol,
		Sample: map[string]interface{}{"index": idx, "mode": "preemption-bounded enumeration", "template": tmpl, "preemption_bound": bound, "executions": execs, "distinct_schedules": distinct, "space_exhausted": exhausted}}
}
