package props

import (
	"bytes"
	"fmt"
	"strings"
	"time"

	"verif/internal/conc"
	"verif/internal/driver"
	"verif/internal/gen"
	"verif/internal/model"
	"verif/internal/sched"
)

// C06: range visits deliver exactly the requested key range, in order, correctly.

func init() {
	register(&Prop{
		ID: "C06", Level: "exploration",
		Rule: "case = (contents of 0..40 items built by a random history incl. deletes and overwrites; comparator in {bytes.Compare, reverse, length-then-lexicographic}; cache state in {never flushed (all cached, dirty), flushed and freshly re-opened (nothing loaded), flushed and evicted k times, mixed after partial key-only/with-value reads, a snapshot taken while unwritten whose shared nodes the original persisted afterwards, items written at offsets that a FlushRevert freed after the earlier occupants had been read}). Inside a case the targets are DERIVED FROM THE CONTENTS: every present key, k+\\x00, a predecessor string of k, a key below the minimum, above the maximum, the empty slice and nil. For every target all six APIs (VisitItemsAscend/Descend, the Ex variants, IterateAscend/Descend) run in both value modes and must deliver exactly the model's range (ascend: key >= target ascending; descend: key < target descending) with the right key, priority and (when requested) value; then EVERY early-stop position 0..len(range) is tried on two of the APIs. Ex depths are compared with the node's true depth from the hook walk + decoder, and with the canonical treap depth when priorities are distinct. The cache state is re-established between targets. Concurrent cases: 2-4 readers run whole and early-stopped visits in both value modes (plus lookups) on a cold file next to a mutator that mutates and evicts, under the deterministic yield-point scheduler (switches at every file call and callback), so that one visit evicts or re-loads an item while another is upgrading it to carry its value; every delivered sequence must be exactly one version's range with the values requested. evaluations counts visits. Non-trivial = visit of a non-empty range or with an early stop; distinct = distinct (case, target, api, mode, stop).",
		Assumptions: []string{
			"items handed to the visitor are read inside the callback only; with withValue=false Val is not compared",
			"comparators are total orders consistent with byte inequality",
		},
		NumCases: func(tier string) int { return pick(tier, 160, 6000) + pick(tier, 800, 30000) },
		Run:      runC06,
		Floor: func(tier string, st map[string]int64) string {
			for _, k := range []string{"c06.visits", "c06.early-stops", "c06.nil-target", "c06.empty-collection-cases", "c06.cmp=rev", "c06.cmp=lenlex", "c06.state=reopened", "c06.state=evicted", "c06.state=mixed", "c06.state=dirty", "c06.state=snapshot-persisted-later", "c06.state=offsets-reused-after-revert", "visit.true-depths-checked", "visit.depths-checked", "c06.iterator-visits", "c06.concurrent-executions", "c06.recycling-allocator-cases", "c06.item-codec-cases"} {
				if st[k] == 0 {
					return "no " + k + " observed"
				}
			}
			return ""
		},
	})
}

func runC06(ctx *Ctx, idx int) Result {
	seed := CaseSeed(ctx.Seed, "C06", idx)
	r := gen.New(seed)
	SeedGlobalRand(seed)
	if idx >= pick(ctx.Tier, 160, 6000) {
		return runC06Concurrent(ctx, idx, r)
	}
	state := idx % 6 // 0 dirty, 1 reopened, 2 evicted, 3 mixed, 4 snapshot persisted by the original afterwards, 5 offsets re-used after FlushRevert
	cmp := []model.Cmp{model.CmpBytes, model.CmpRev, model.CmpLenLex}[(idx/6)%3]
	size := r.Intn(41)
	if idx%37 == 0 {
		size = 0
	}
	cfg := driver.Config{Walk: true, MemOnly: state == 0 && r.Bool()}
	switch idx % 7 {
	case 3:
		cfg.RefMon, cfg.Recycle = true, true // recycling item allocator (ItemAlloc + reference callbacks)
		ctx.Stats["c06.recycling-allocator-cases"]++
	case 5:
		cfg.RefMon, cfg.RefOnly, cfg.Recycle = true, true, true // reference callbacks only
		ctx.Stats["c06.recycling-allocator-cases"]++
	case 1:
		// an item codec (BeforeItemWrite / AfterItemRead) that encodes the key and adds a checksum trailer to the
		// value: what a visit delivers, and what it compares with its target, is the decoded item
		cfg.CB = driver.CBSwap
		ctx.Stats["c06.item-codec-cases"]++
	}
	name := "r"
	e := driver.NewEnvCmps(fmt.Sprintf("c06-%d", idx), cfg, map[string]model.Cmp{name: cmp})
	e.SetCollection(name, cmp)
	keys := gen.Keys(r, size+4, []gen.KeyClass{gen.KeysShort, gen.KeysPrefix, gen.KeysDigits, gen.KeysMagic, gen.KeysLong}[r.Intn(5)])
	pg := gen.NewPrioGen(gen.PrioRegime(r.Intn(int(gen.NumPrioRegimes))))
	for i := 0; i < size && !e.Failed(); i++ {
		e.SetItem(name, keys[i], gen.Val(r, gen.ValsMixed, fmt.Sprintf("v%d", i), nil), pg.Next(r), false)
	}
	// a few deletes / overwrites so that the tree is not a pure insertion result
	for i := 0; i < size/4 && !e.Failed(); i++ {
		k := keys[r.Intn(size+4)]
		if r.Bool() {
			e.Delete(name, k)
		} else {
			e.SetItem(name, k, gen.Val(r, gen.ValsMixed, fmt.Sprintf("w%d", i), nil), pg.Next(r), false)
		}
	}
	snap := -1
	switch state {
	case 4:
		// the snapshot is taken while everything is unwritten; the original then persists the shared
		// nodes and items, so the snapshot's visits evict and re-load through locations written after it
		e.Snapshot(-1)
		snap = 0
	case 5:
		// items flushed, read back key-only, reverted away and replaced by others of the same record sizes
		if !e.Failed() {
			e.Flush()
		}
		nx := r.Range(2, 6)
		xk := gen.Keys(r, nx, gen.KeysDigits)
		xv := make([][]byte, nx)
		for i := 0; i < nx && !e.Failed(); i++ {
			xv[i] = gen.Val(r, gen.ValsShort, fmt.Sprintf("x%d", i), nil)
			e.SetItem(name, append([]byte("x"), xk[i]...), xv[i], pg.Next(r), false)
		}
		if !e.Failed() {
			e.Flush()
		}
		for i := 0; i < 2 && !e.Failed(); i++ {
			e.Visit(-1, name, driver.VAsc, nil, false, -1)
		}
		if !e.Failed() {
			e.FlushRevert()
		}
		for i := 0; i < nx && !e.Failed(); i++ {
			v := append([]byte{}, xv[i]...)
			if len(v) > 0 {
				v[0] ^= 0x20
			}
			e.SetItem(name, append([]byte("y"), xk[i]...), v, pg.Next(r), false)
		}
	}
	m := e.M.Live.Colls[name]
	stateName := []string{"dirty", "reopened", "evicted", "mixed", "snapshot-persisted-later", "offsets-reused-after-revert"}[state]
	ctx.Stats["c06.state="+stateName]++
	ctx.Stats["c06.cmp="+string(cmp)]++
	if len(m.Items) == 0 {
		ctx.Stats["c06.empty-collection-cases"]++
	}
	if state != 0 && !e.Failed() {
		e.Flush()
	}
	refresh := func(n int) {
		if e.Failed() {
			return
		}
		switch state {
		case 1:
			if n%6 == 0 {
				e.Reopen(n%12 == 0)
			}
		case 2, 5:
			e.Evict(name, 1+n%4)
		case 3:
			for j := 0; j < 3; j++ {
				s := m.Sorted()
				if len(s) > 0 {
					e.GetItem(-1, name, s[r.Intn(len(s))].Key, r.Bool())
				}
			}
			if n%3 == 0 {
				e.Evict(name, 1)
			}
		}
	}
	// targets derived from the contents
	var targets [][]byte
	seen := map[string]bool{}
	add := func(t []byte) {
		k := "n"
		if t != nil {
			k = "b" + string(t)
		}
		if !seen[k] {
			seen[k] = true
			targets = append(targets, t)
		}
	}
	add(nil)
	add([]byte{})
	add([]byte{0})
	add(bytes.Repeat([]byte{0xff}, 6))
	for _, kv := range m.Sorted() {
		add(kv.Key)
		add(append(append([]byte{}, kv.Key...), 0))
		p := append([]byte{}, kv.Key...)
		if p[len(p)-1] > 0 {
			p[len(p)-1]--
			p = append(p, 0xff)
		} else {
			p = p[:len(p)-1]
		}
		add(p)
	}
	for _, k := range keys[size:] {
		add(k) // absent keys from the same universe
	}
	visits, nontriv := 0, 0
	kinds := []driver.VisitKind{driver.VAsc, driver.VDesc, driver.VAscEx, driver.VDescEx, driver.VIterAsc, driver.VIterDesc}
	for ti, t := range targets {
		if e.Failed() {
			break
		}
		if t == nil {
			ctx.Stats["c06.nil-target"]++
		}
		refresh(ti)
		for _, k := range kinds {
			for _, wv := range []bool{false, true} {
				e.Visit(snap, name, k, t, wv, -1)
				visits++
				if k == driver.VIterAsc || k == driver.VIterDesc {
					ctx.Stats["c06.iterator-visits"]++
				}
			}
		}
		// every early-stop position on two of the APIs
		asc, desc := len(m.Ascend(t)), len(m.Descend(t))
		if asc > 0 || desc > 0 {
			nontriv += 12
		}
		ka, kd := kinds[(ti%3)*2], kinds[(ti%3)*2+1]
		for p := 0; p <= asc && !e.Failed(); p++ {
			e.Visit(snap, name, ka, t, p%2 == 0, p)
			visits++
			nontriv++
			ctx.Stats["c06.early-stops"]++
		}
		for p := 0; p <= desc && !e.Failed(); p++ {
			e.Visit(snap, name, kd, t, p%2 == 1, p)
			visits++
			nontriv++
			ctx.Stats["c06.early-stops"]++
		}
		if ti%5 == 0 {
			e.AfterStep()
		}
	}
	e.AfterStep()
	ctx.Stats["c06.visits"] += int64(visits)
	ctx.Stats["evaluations.extra"] += int64(visits)
	ctx.Stats["nontrivial.extra"] += int64(nontriv)
	ctx.Add(e)
	v := violOf(e)
	if v != nil {
		v.Detail = fmt.Sprintf("[comparator %s, cache state %s, %d items] %s", cmp, stateName, len(m.Items), v.Detail)
		v.Trace = tail(v.Trace, 25)
	}
	return Result{Hash: gen.Mix(uint64(idx), uint64(visits)), NonTrivial: nontriv > 0, Viol: v,
		Sample: map[string]interface{}{"index": idx, "items": len(m.Items), "comparator": string(cmp), "cache_state": stateName, "targets": len(targets), "visits": visits}}
}

// runC06Concurrent: visits racing with other visits' evictions / re-loads of the same items.
func runC06Concurrent(ctx *Ctx, idx int, r *gen.R) Result {
	p := c05Program(r, false, 0)
	p.MemOnly = false
	p.Cold = 1 + r.Intn(2)
	p.Flusher = nil
	if idx%2 == 0 { // half of the cases: nothing but eviction next to the readers
		var ms []conc.Step
		for i := 0; i < len(p.Mutator) && i < 10; i++ {
			ms = append(ms, conc.Step{K: conc.MEvict, Coll: p.Mutator[i].Coll})
		}
		p.Mutator = ms
	}
	for i := range p.Readers {
		for j := range p.Readers[i] {
			st := &p.Readers[i][j]
			if st.K == conc.RSnapshot || st.K == conc.RTotals {
				st.K = conc.RVisit
				st.Key = nil
				st.Stop = -1
			}
			if st.K == conc.RVisit && j%2 == 0 {
				st.WithVal = true
			}
		}
	}
	for len(p.Readers) < 3 {
		p.Readers = append(p.Readers, append([]conc.Step{}, p.Readers[0]...))
	}
	s := sched.New(&sched.Random{Next: r.Intn, Stick: []int{0, 30, 60}[r.Intn(3)]})
	h, _ := conc.Run(p, conc.Mode{Sched: s})
	fs, st, _ := conc.Check(p, h, 30*time.Second)
	ctx.Stats["c06.concurrent-executions"]++
	ctx.Stats["c06.visits"] += int64(st.ReaderOps)
	ctx.Stats["evaluations.extra"]++
	ctx.Stats["nontrivial.extra"]++
	var v *Viol
	if len(fs) > 0 {
		v = &Viol{Sig: "C06/concurrent/" + strings.TrimPrefix(fs[0].Sig, "C05/"), Detail: "[concurrent visits, deterministic schedule] " + fs[0].Detail}
	}
	return Result{Hash: s.Hash(), NonTrivial: true, Viol: v,
		Sample: map[string]interface{}{"index": idx, "mode": "concurrent visits", "readers": len(p.Readers), "decisions": len(s.Decisions)}}
}
