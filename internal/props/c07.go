package props

import (
	"fmt"

	"verif/internal/driver"
	"verif/internal/gen"
	"verif/internal/vfile"
)

// C07: file errors are reported, never swallowed, and failed calls change nothing.

var mixC07 = Mix{Set: 22, Delete: 9, Get: 4, GetItem: 5, Exist: 2, MinMax: 4, Totals: 2, Visit: 5, Iter: 1, Len: 1,
	Flush: 9, Evict: 4, Reopen: 7, Snapshot: 2, SnapRead: 3, SnapClose: 1, SnapRevert: 1, FlushRevert: 2, CopyTo: 2, CollWrite: 1,
	SetCollNew: 1}

func init() {
	register(&Prop{
		ID: "C07", Level: "fault_enumeration",
		Rule: "case = one seeded history of 10-30 operations that re-opens early and often (so lookups, visits and mutations really read the file) incl. NewStore, lookups, visits, iterators, mutations, EvictSomeItems, CopyTo, Flush, FlushRevert, snapshot reads. Pass 1 runs it fault-free and records every StoreFile call per operation. Pass 2 re-runs the history from scratch once per FAULT POINT: for every operation i and every call k = 1..calls(i) of that operation (and every destination-file call of CopyTo) the k-th call fails - ReadAt outright, short with the injected error, or short with io.EOF; WriteAt outright or torn after j bytes (j in {1, len/2, len-1, len}; every j for writes <= 48 bytes in the thorough tier); Stat; Truncate. Then: the call in progress must return an error and not panic or exceed the logical scan bound; the hook walk must find no wrongly marked/freed reachable node; the file image right after the fault must re-open to the last durable state (or, for a root record that landed completely although the write reported an error, the new one); after the fault clears, a complete read-back must equal the model in which the failed call had no effect, and up to 6 further random operations, 3 mutations, a (retried) Flush, a read-back, a re-open and a final read-back must all agree with the model (after a failed FlushRevert or open the store is re-opened first). evaluations counts fault-point executions. Non-trivial = the fault fired inside an operation of the history; distinct = distinct (history, operation index, call index, variant).",
		Assumptions: []string{
			"a fault is only expected to surface if the faulted call was actually issued (the plan records whether it fired)",
			"EvictSomeItems and Exist have no error result: only the no-panic / change-nothing clauses apply; a wrong Exist answer is reported under its own signature",
			"one fault per execution; the file works again afterwards",
		},
		NumCases: func(tier string) int { return pick(tier, 64, 3000) },
		Run:      runC07,
		Floor: func(tier string, st map[string]int64) string {
			need := []string{"fault-points", "fault.fired/op=Open/ReadAt", "fault.fired/op=Open/Stat", "fault.fired/op=Flush/WriteAt", "fault.fired/op=Set/ReadAt", "fault.fired/op=Delete/ReadAt",
				"fault.fired/op=GetItem/ReadAt", "fault.fired/op=Visit/ReadAt", "fault.fired/op=FlushRevert/ReadAt", "fault.fired/op=FlushRevert/Truncate", "fault.fired/op=CopyTo/ReadAt", "fault.fired/op=CopyTo(dst)/WriteAt",
				"c07.torn-writes", "c07.short-reads", "c07.short-reads-with-EOF", "c07.retried-flush-ok"}
			for _, k := range need {
				if st[k] == 0 {
					return "no " + k + " observed"
				}
			}
			return ""
		},
	})
}

type c07Point struct {
	eof     bool // short read reported as io.EOF
	op      int  // step index
	call    int  // 1-based call number within the op (on the main file, or dst file when dst)
	partial int
	dst     bool
	kind    vfile.Kind
	length  int
}

func c07Hist(ctx *Ctx, idx int) *Hist {
	seed := CaseSeed(ctx.Seed, "C07", idx)
	r := gen.New(seed)
	SeedGlobalRand(seed)
	cfg := driver.Config{ReadbackK: 0, Walk: true, KeepLog: true}
	if idx%2 == 1 {
		// neutral callbacks must not change error propagation either (C17)
		cfg.CB = driver.CBMask(r.Intn(64)) &^ (driver.CBAlloc | driver.CBRef)
	}
	hc := HistCfg{Steps: r.Range(10, 30), NColls: r.Range(1, 2), NKeys: r.Range(4, 10), KeyClass: gen.KeysShort, ValClass: gen.ValsMixed,
		Prio: gen.PrioRegime(r.Intn(int(gen.NumPrioRegimes))), Mix: mixC07, MaxSnaps: 2}
	if idx%8 == 5 {
		// a recycling item allocator (C15/C17 style): an item released once too often on an error
		// path is wiped while still in use, or takes its count below zero
		cfg.CB = 0
		cfg.RefMon, cfg.Recycle = true, true
		ctx.Stats["c07.recycling-allocator-cases"]++
	}
	if idx%5 == 3 {
		// keys longer than one read-ahead unit are loaded with more than one ReadAt
		hc.KeyClass, hc.NKeys = gen.KeysLong, r.Range(4, 6)
		ctx.Stats["c07.long-key-cases"]++
	}
	h := NewHist(r, cfg, hc, fmt.Sprintf("c07-%d", idx))
	// a durable start so that early operations already read the file
	for i := 0; i < 4 && !h.E.Failed(); i++ {
		n := h.Names[0]
		v := h.nextVal()
		if idx%pick(ctx.Tier, 4, 17) == 2 && i < 2 {
			// values longer than any buffer: whatever pieces they are read in, each read can fail
			if want := []int{65536, 150000, 131072}[(idx/4+i)%3]; want > len(v) {
				v = append(v, r.Bytes(want-len(v))...)
			}
			ctx.Stats["c07.big-values"]++
		}
		h.E.SetItem(n, h.key(n, 0), v, h.Prios.Next(r), false)
	}
	h.E.Flush()
	h.E.Reopen(true)
	return h
}

// runC07Exist is the scripted history of the recorded known finding: Exist() under a read fault.
func runC07Exist(ctx *Ctx) Result {
	e := driver.NewEnv("c07-exist", driver.Config{Walk: true})
	e.SetCollection("a", "")
	for i := 0; i < 5; i++ {
		e.SetItem("a", []byte(fmt.Sprintf("k%d", i)), []byte("v"), int32(10*i+1), false)
	}
	e.Flush()
	e.Reopen(true)
	ft := &vfile.Fault{Nth: 1, Partial: -1}
	e.Fault = ft
	e.F.Arm(ft)
	e.Exist(-1, "a", []byte("k3"))
	e.F.Disarm()
	e.Fault = nil
	ctx.Stats["fault-points"]++
	ctx.Stats["evaluations.extra"]++
	ctx.Stats["nontrivial.extra"]++
	for k, v := range e.Stats {
		if hasPrefix(k, "fault.") {
			ctx.Stats[k] += v
		}
	}
	return Result{Hash: 7, NonTrivial: true, Viol: violOf(e), Sample: map[string]interface{}{"index": 0, "scripted": "Exist under a read fault", "ops": e.Trace}}
}

func runC07(ctx *Ctx, idx int) Result {
	if idx == 0 {
		return runC07Exist(ctx)
	}
	// ---- pass 1: fault free, record calls per step
	h := c07Hist(ctx, idx)
	e := h.E
	type stepCalls struct {
		calls []vfile.Call
		dst   int
		op    string
	}
	var steps []stepCalls
	for i := 0; i < h.Cfg.Steps && !e.Failed(); i++ {
		before := len(e.F.Log)
		e.LastDstCalls = 0
		h.Step()
		sc := stepCalls{calls: append([]vfile.Call{}, e.F.Log[before:]...), dst: e.LastDstCalls}
		if n := len(e.Trace); n > 0 {
			sc.op = e.Trace[n-1]
		}
		steps = append(steps, sc)
		e.AfterStep()
	}
	e.ResumeAll()
	ctx.Add(e)
	if e.Failed() {
		return Result{Hash: histHash(e), Viol: violOf(e), Sample: map[string]interface{}{"index": idx, "pass": 1, "ops": tail(e.Trace, 40)}}
	}
	trace1 := append([]string{}, e.Trace...)
	// ---- enumerate fault points
	var pts []c07Point
	for i, sc := range steps {
		for k, c := range sc.calls {
			if n := len(sc.calls); n > 48 {
				// byte-by-byte backward scans issue thousands of identical reads:
				// the first and last 12 calls and 24 evenly spread ones are enumerated
				if !(k < 12 || k >= n-12 || k%(n/24+1) == 0) {
					ctx.Stats["c07.scan-calls-sampled-out"]++
					continue
				}
			}
			for _, p := range partials(ctx, c.Kind, c.Len) {
				pts = append(pts, c07Point{op: i, call: k + 1, partial: p, kind: c.Kind, length: c.Len})
			}
			if c.Kind == vfile.KRead && c.Len > 1 && (k%3 == 0 || ctx.Thorough()) {
				// a short read that the file reports as io.EOF (e.g. the file was cut behind the store's back)
				pts = append(pts, c07Point{op: i, call: k + 1, partial: c.Len / 2, kind: c.Kind, length: c.Len, eof: true})
			}
		}
		for k := 1; k <= sc.dst; k++ {
			pts = append(pts, c07Point{op: i, call: k, partial: -1, dst: true})
			pts = append(pts, c07Point{op: i, call: k, partial: 3, dst: true})
		}
	}
	var firstViol *Viol
	var sample interface{}
	nontrivial := 0
	for _, pt := range pts {
		v, fired := runC07Point(ctx, idx, pt, len(steps))
		ctx.Stats["fault-points"]++
		if fired {
			nontrivial++
		}
		if v != nil && firstViol == nil {
			firstViol = v
			firstViol.Detail = fmt.Sprintf("fault point: step %d (%s), call %d, kind %s, len %d, partial %d, dst=%v\n%s", pt.op, steps[pt.op].op, pt.call, pt.kind, pt.length, pt.partial, pt.dst, v.Detail)
		}
		if v != nil {
			ctx.Stats["c07.violating-points"]++
			if ctx.Stats["c07.violating-points"] > 40 {
				break
			}
		}
	}
	ctx.Stats["evaluations.extra"] += int64(len(pts))
	ctx.Stats["nontrivial.extra"] += int64(nontrivial)
	sample = map[string]interface{}{"index": idx, "history": tail(trace1, 30), "fault_points": len(pts), "fired": nontrivial,
		"example_point": fmt.Sprintf("%+v", func() interface{} {
			if len(pts) > 0 {
				return pts[len(pts)/2]
			}
			return nil
		}())}
	return Result{Hash: gen.Mix(uint64(idx), uint64(len(pts))), NonTrivial: nontrivial > 0, Viol: firstViol, Sample: sample}
}

func partials(ctx *Ctx, k vfile.Kind, n int) []int {
	switch k {
	case vfile.KRead:
		if n > 1 {
			return []int{-1, n / 2}
		}
		return []int{-1}
	case vfile.KWrite:
		if ctx.Thorough() && n <= 48 {
			r := []int{-1}
			for j := 1; j <= n; j++ {
				r = append(r, j)
			}
			return r
		}
		set := map[int]bool{}
		r := []int{-1}
		for _, j := range []int{1, n / 2, n - 1, n} {
			if j >= 1 && j <= n && !set[j] {
				set[j] = true
				r = append(r, j)
			}
		}
		return r
	}
	return []int{-1}
}

// runC07Point replays the history with one fault and checks the aftermath.
func runC07Point(ctx *Ctx, idx int, pt c07Point, nSteps int) (*Viol, bool) {
	h := c07Hist(ctx, idx)
	e := h.E
	sub := &Ctx{Tier: ctx.Tier, Seed: ctx.Seed, Stats: map[string]int64{}}
	defer func() {
		// only fault-related counters are merged (operation counters would swamp the evidence)
		for k, v := range e.Stats {
			if hasPrefix(k, "fault.") || hasPrefix(k, "c07.") {
				ctx.Stats[k] += v
			}
		}
		_ = sub
	}()
	for i := 0; i < pt.op && !e.Failed(); i++ {
		h.Step()
		e.AfterStep()
	}
	if e.Failed() {
		return violOf(e), false
	}
	ft := &vfile.Fault{Nth: pt.call, Partial: pt.partial, EOF: pt.eof}
	if pt.eof {
		e.Stats["c07.short-reads-with-EOF"]++
	}
	durableBefore := e.M.Durable()
	pendingBefore := e.M.Live.Clone()
	if pt.dst {
		e.DstFault = ft
	} else {
		e.Fault = ft
		e.F.Arm(ft)
	}
	h.Step()
	e.F.Disarm()
	fired := ft.Fired
	e.Fault, e.DstFault = nil, nil
	if e.Failed() {
		return violOf(e), fired
	}
	if !fired {
		ctx.Stats["c07.fault-not-reached"]++
		return nil, false
	}
	if ft.FiredKind == vfile.KWrite && pt.partial > 0 {
		e.Stats["c07.torn-writes"]++
	}
	if ft.FiredKind == vfile.KRead && pt.partial > 0 {
		e.Stats["c07.short-reads"]++
	}
	// (4) structural monitors right after the failed call (after a failed
	// FlushRevert / open the store has to be re-opened first, as the property says)
	if e.FaultOp != "FlushRevert" && e.FaultOp != "Open" {
		e.AfterStep()
	}
	if e.Failed() {
		return violOf(e), fired
	}
	// (3) the image right after the fault re-opens to the last durable state
	img := e.F.Bytes()
	alt := false
	if ft.FiredKind == vfile.KWrite && pt.partial >= ft.FiredLen && e.FaultOp == "Flush" {
		alt = true // the write landed completely although it reported an error: either state is acceptable
	}
	probe := driver.NewEnvCmps("probe", driver.Config{}, e.Cmps)
	driver.OpenCopyAndCompare(probe, img, durableBefore, "image-after-fault")
	if probe.Failed() && alt {
		probe2 := driver.NewEnvCmps("probe", driver.Config{}, e.Cmps)
		driver.OpenCopyAndCompare(probe2, img, pendingBefore, "image-after-fault")
		if !probe2.Failed() {
			probe = probe2
			// the flush is in fact durable: the model follows what the file says
			e.Stats["c07.full-length-failed-root-write"]++
		}
	}
	if probe.Failed() {
		e.Failf("C07/durable-state-damaged/op="+e.FaultOp, "after a failed %s the file no longer re-opens to the last durable state: %s", e.FaultOp, probe.Viol.Detail)
		return violOf(e), fired
	}
	// (2) once the file works again everything behaves as if the call had never been made
	switch e.FaultOp {
	case "Open":
		if e.OpenedDespiteFault != nil {
			e.Failf("C07/error-swallowed/op=Open/fault="+ft.FiredKind.String(),
				"NewStore returned a store and no error although the file failed a %s during the open (collections visible: %q, durable model: %q)",
				ft.FiredKind, e.OpenedDespiteFault.GetCollectionNames(), e.M.Durable().Names())
			return violOf(e), fired
		}
		e.RetryOpen()
	case "FlushRevert":
		e.Reopen(false)
	}
	// (for a root record that landed completely although the write reported an error the
	// store rightly believes the Flush failed while a re-open would show it: only the
	// unambiguous follow-up - read-back, mutations, retried Flush, re-open - is checked)
	if e.NoRootsStop {
		return nil, fired
	}
	e.ReadbackAll(driver.RAll)
	for i := 0; i < 6 && !e.Failed() && !alt; i++ {
		h.Step()
		e.AfterStep()
	}
	e.ResumeAll()
	if e.NoRootsStop {
		return nil, fired
	}
	if !e.Failed() && e.S != nil {
		name := h.liveName()
		if name == "" {
			e.SetCollection(h.Names[0], e.Cmps[h.Names[0]])
			name = h.Names[0]
		}
		for i := 0; i < 3 && !e.Failed(); i++ {
			e.SetItem(name, h.key(name, 30), h.nextVal(), h.Prios.Next(h.R), false)
			e.AfterStep()
		}
		e.Flush() // a retried Flush if the failed call was one
		if !e.Failed() {
			e.Stats["c07.retried-flush-ok"]++
		}
		e.ReadbackAll(driver.RAll)
		e.Reopen(false)
		e.ReadbackAll(driver.RAll)
		e.AfterStep()
	}
	if e.Failed() {
		v := violOf(e)
		if !hasPrefix(v.Sig, "C07/") {
			v.Sig = "C07/after-fault-in=" + e.FaultOp + "/" + v.Sig
		}
		return v, fired
	}
	return nil, fired
}
