package props

import (
	"fmt"

	"verif/internal/driver"
	"verif/internal/gen"
	"verif/internal/model"
)

// C08: FlushRevert restores exactly the previous Flush and always terminates.

type c08Grid struct {
	variation, flushes, reverts int
	pending                     int // 0 none, 1 unflushed mutations, 2 unflushed mutations + Collection.Write()
	reopen                      bool
}

func c08Cases(tier string) []c08Grid {
	var res []c08Grid
	vars := pick(tier, 5, 60)
	for v := 0; v < vars; v++ {
		for f := 0; f <= 6; f++ {
			for pending := 0; pending < 3; pending++ {
				for _, reopen := range []bool{false, true} {
					for r := 1; r <= f+2; r++ {
						res = append(res, c08Grid{variation: v, flushes: f, reverts: r, pending: pending, reopen: reopen})
					}
				}
			}
		}
	}
	return res
}

func init() {
	register(&Prop{
		ID: "C08", Level: "exploration",
		Rule: "grid cases: for every (flushes f in 0..6) x (pending: nothing / unflushed mutations / unflushed mutations plus a Collection.Write() that leaves unreferenced bytes after the last root record) x (re-open before reverting: no/yes) x (consecutive reverts r in 1..f+2, i.e. always past the first flush) x content variations (half of them with reverse / length-first comparators supplied through KeyCompareForCollection), the store is built with random mutations between the flushes, reverted r times, and after every revert compared with the model's stack of flushed states (contents of every collection, names, file length = end of that flush's root record, a second store opened on a copy of the file, the independent decoder); then mutated, flushed and re-opened again. Further cases are random histories (several collections, collection add/remove between flushes, memory-only stores which must refuse). In a third of the cases an iterator that its consumer has not finished with (one item taken, not closed) is open across every FlushRevert. No-callback cases: the store has NO KeyCompareForCollection callback; a collection in the default order is flushed, then removed and re-created (or replaced while empty) under the same name with a reverse / length-first comparator, filled and flushed again; FlushRevert must bring back the first flush in ITS order (then mutate, flush, re-open and compare again). Termination is decided on logical steps: a FlushRevert that does not return while every goroutine of the process is parked on a channel or lock (8 identical successive observations) is blocked for ever; the rootscan.iter hook counts scan iterations and more than 2*filesize+64 is impossible for a terminating scan. Non-trivial = at least one revert executed on a file with >= 1 flush, or a revert past the first flush; distinct = distinct op-trace hash.",
		Assumptions: []string{
			"snapshots taken before a FlushRevert of the original are closed first (README)",
			"failed flushes between the last Flush and FlushRevert are exercised under C07 (fault injection), Collection.Write() here",
		},
		Exhaustive: func(string) bool { return false },
		NumCases:   func(tier string) int { return len(c08Cases(tier)) + pick(tier, 300, 20000) + pick(tier, 120, 4000) },
		Run:        runC08,
		Floor: func(tier string, st map[string]int64) string {
			for _, k := range []string{"op.FlushRevert", "c08.revert-past-first", "c08.revert-to-previous", "c08.flush-after-revert", "c08.memonly-refused", "rootscan.iters", "c08.collwrite-before-revert", "c08.custom-comparator-cases", "iterators-open-across-revert", "c08.no-callback-cases", "c08.magic-laden-value-cases"} {
				if st[k] == 0 {
					return "no " + k + " observed"
				}
			}
			return ""
		},
	})
}

func runC08(ctx *Ctx, idx int) Result {
	seed := CaseSeed(ctx.Seed, "C08", idx)
	r := gen.New(seed)
	SeedGlobalRand(seed)
	grid := c08Cases(ctx.Tier)
	if idx >= len(grid)+pick(ctx.Tier, 300, 20000) {
		return runC08NoCallback(ctx, idx, r)
	}
	if idx >= len(grid) {
		return runC08Random(ctx, idx, r)
	}
	g := grid[idx]
	cfg := driver.Config{ReadbackK: 0, Decode: true, Walk: r.P(50), IterAcrossRevert: idx%3 == 1}
	hc := HistCfg{NColls: r.Range(1, 2), NKeys: 6, KeyClass: gen.KeyClass(r.Intn(int(gen.NumKeyClasses) - 1)), ValClass: gen.ValsMixed, Prio: gen.PrioDistinct}
	if hc.KeyClass == gen.KeysMixed {
		hc.KeyClass = gen.KeysShort
	}
	hc.Mix = Mix{Set: 10, Delete: 3, GetItem: 2}
	if idx%4 == 2 {
		// values laden with the magic markers, plausible trailers and byte-exact copies of earlier root
		// records of the same file: the backward scan of a revert has to cross them
		hc.ValClass = gen.ValsMagic
		ctx.Stats["c08.magic-laden-value-cases"]++
	}
	if g.variation%2 == 1 {
		hc.CustomCmp, hc.KeyClass = true, gen.KeysDigits // comparators come back through KeyCompareForCollection after a revert
		ctx.Stats["c08.custom-comparator-cases"]++
	}
	h := NewHist(r, cfg, hc, fmt.Sprintf("c08-%d", idx))
	e := h.E
	mutate := func(n int) {
		for i := 0; i < n && !e.Failed(); i++ {
			h.Step()
			e.AfterStep()
		}
	}
	for f := 0; f < g.flushes && !e.Failed(); f++ {
		mutate(r.Range(1, 5))
		e.Flush()
		e.AfterStep()
	}
	if g.pending > 0 {
		mutate(r.Range(1, 4))
	}
	if g.pending == 2 && !e.Failed() {
		// unreferenced data after the last root record (items and nodes, no roots)
		for _, n := range e.M.Live.Names() {
			e.CollWrite(n)
		}
		e.AfterStep()
		ctx.Stats["c08.collwrite-before-revert"]++
	}
	if g.reopen && !e.Failed() {
		e.Reopen(r.Bool())
		e.AfterStep()
	}
	for i := 0; i < g.reverts && !e.Failed(); i++ {
		before := len(e.M.Flushes)
		e.FlushRevert()
		if e.Failed() || e.NoRootsStop {
			break
		}
		if before <= 1 {
			ctx.Stats["c08.revert-past-first"]++
		} else {
			ctx.Stats["c08.revert-to-previous"]++
		}
		e.ReadbackAll(driver.RAll)
		driver.OpenCopyAndCompare(e, e.F.Bytes(), e.M.Durable(), "after-revert")
		e.DecodeCheck("after-revert")
		e.AfterStep()
	}
	// new flushes after a revert are durable as usual
	if !e.Failed() && !e.NoRootsStop {
		if len(e.M.Live.Colls) == 0 {
			e.SetCollection(h.Names[0], e.Cmps[h.Names[0]])
		}
		mutate(r.Range(1, 4))
		e.Flush()
		if !e.Failed() {
			ctx.Stats["c08.flush-after-revert"]++
			driver.OpenCopyAndCompare(e, e.F.Bytes(), e.M.Durable(), "flush-after-revert")
			e.Reopen(false)
			e.ReadbackAll(driver.RAll)
			e.AfterStep()
		}
	}
	ctx.Add(e)
	return Result{Hash: histHash(e), NonTrivial: true, Viol: violOf(e),
		Sample: map[string]interface{}{"index": idx, "grid": fmt.Sprintf("%+v", g), "ops": tail(e.Trace, 40)}}
}

var mixC08 = Mix{Set: 30, Delete: 8, GetItem: 4, Visit: 2, Flush: 12, Evict: 3, Reopen: 4, FlushRevert: 8, CollWrite: 4, SetCollNew: 3, RemoveColl: 2, SetCollExisting: 1, Snapshot: 2, SnapRead: 3, SnapClose: 2}

func runC08Random(ctx *Ctx, idx int, r *gen.R) Result {
	cfg := driver.Config{MemOnly: r.P(8), ReadbackK: []int{1, 2, 5}[r.Intn(3)], Decode: true, ReopenCheck: r.P(50), Walk: r.P(30), IterAcrossRevert: idx%3 == 1}
	hc := HistCfg{Steps: r.Range(20, 70), NColls: r.Range(1, 3), NKeys: r.Range(4, 12), KeyClass: gen.KeysShort, ValClass: gen.ValsMixed,
		Prio: gen.PrioDistinct, Mix: mixC08, MaxSnaps: 2, Exotic: r.P(30), CustomCmp: r.P(35)}
	if hc.CustomCmp {
		hc.KeyClass = gen.KeysDigits
		ctx.Stats["c08.custom-comparator-cases"]++
	}
	if idx%4 == 2 {
		hc.ValClass = gen.ValsMagic
		ctx.Stats["c08.magic-laden-value-cases"]++
	}
	h := NewHist(r, cfg, hc, fmt.Sprintf("c08r-%d", idx))
	e := h.E
	if cfg.MemOnly {
		// memory-only stores must reject the call
		e.FlushRevert()
		if !e.Failed() {
			ctx.Stats["c08.memonly-refused"]++
		}
	}
	for i := 0; i < hc.Steps && !e.Failed(); i++ {
		before := len(e.M.Flushes)
		nrev := e.Stats["op.FlushRevert"]
		h.Step()
		if e.Stats["op.FlushRevert"] > nrev && !e.Failed() && !cfg.MemOnly {
			if before <= 1 {
				ctx.Stats["c08.revert-past-first"]++
			} else {
				ctx.Stats["c08.revert-to-previous"]++
			}
			driver.OpenCopyAndCompare(e, e.F.Bytes(), e.M.Durable(), "after-revert")
			e.ReadbackAll(driver.RAll)
		}
		e.AfterStep()
	}
	if !e.Failed() {
		e.ReadbackAll(driver.RAll)
		e.AfterStep()
	}
	ctx.Add(e)
	return Result{Hash: histHash(e), NonTrivial: h.Feat["flushrevert"] && h.Feat["flush"], Viol: violOf(e),
		Sample: map[string]interface{}{"index": idx, "mem_only": cfg.MemOnly, "features": featList(h.Feat), "ops": tail(e.Trace, 40)}}
}

// runC08NoCallback: stores without a KeyCompareForCollection callback.  Everything such a store ever
// loads from the file is in the default order, but between the flush that is reverted to and the
// revert a collection of the same name lives under another comparator.
func runC08NoCallback(ctx *Ctx, idx int, r *gen.R) Result {
	cfg := driver.Config{Decode: true, NoCmpCallback: true, IterAcrossRevert: idx%4 == 1}
	names := []string{"x", "y"}
	cmps := map[string]model.Cmp{"x": model.CmpBytes, "y": model.CmpBytes}
	e := driver.NewEnvCmps(fmt.Sprintf("c08n-%d", idx), cfg, cmps)
	keys := gen.Keys(r, 12, gen.KeysDigits)
	pg := gen.NewPrioGen(gen.PrioDistinct)
	fill := func(n string, k int) {
		for i := 0; i < k && !e.Failed(); i++ {
			e.SetItem(n, keys[r.Intn(len(keys))], gen.Val(r, gen.ValsShort, fmt.Sprintf("v%d", i), nil), pg.Next(r), false)
		}
	}
	nc := r.Range(1, 2)
	for _, n := range names[:nc] {
		e.SetCollection(n, model.CmpBytes)
		fill(n, r.Range(2, 8))
	}
	e.Flush() // A: everything in the default order
	if r.P(40) {
		fill(names[0], r.Range(1, 3))
		e.Flush() // A': still the default order
	}
	e.AfterStep()
	other := []model.Cmp{model.CmpRev, model.CmpLenLex}[r.Intn(2)]
	n := names[r.Intn(nc)]
	if r.Bool() {
		e.RemoveCollection(n)
	} else {
		for _, kv := range e.M.Live.Colls[n].Sorted() {
			e.Delete(n, kv.Key)
		}
	}
	e.Cmps[n] = other
	e.SetCollection(n, other)
	fill(n, r.Range(3, 8))
	if !e.Failed() {
		e.ReadbackAll(driver.RAll)
	}
	e.Flush() // B: collection n is ordered by the other comparator
	e.AfterStep()
	e.Cmps[n] = model.CmpBytes // what the revert brings back is in the default order again
	e.FlushRevert()
	if !e.Failed() {
		ctx.Stats["c08.revert-to-previous"]++
		e.ReadbackAll(driver.RAll)
		driver.OpenCopyAndCompare(e, e.F.Bytes(), e.M.Durable(), "after-revert")
		e.DecodeCheck("after-revert")
		e.AfterStep()
	}
	if !e.Failed() {
		for _, m := range e.M.Live.Names() {
			fill(m, r.Range(1, 3))
		}
		e.Flush()
		if !e.Failed() {
			driver.OpenCopyAndCompare(e, e.F.Bytes(), e.M.Durable(), "flush-after-revert")
			e.Reopen(false)
			e.ReadbackAll(driver.RAll)
			e.AfterStep()
		}
	}
	ctx.Stats["c08.no-callback-cases"]++
	ctx.Add(e)
	return Result{Hash: histHash(e), NonTrivial: true, Viol: violOf(e),
		Sample: map[string]interface{}{"index": idx, "no_comparator_callback": true, "replaced_with": string(other), "ops": tail(e.Trace, 40)}}
}
