package props

import (
	"bytes"
	"fmt"

	"github.com/cbehopkins/gkvlite"

	"verif/internal/decoder"
	"verif/internal/driver"
	"verif/internal/gen"
	"verif/internal/vfile"
)

// C09: the file is append-only and read paths never write.

var mixC09 = Mix{Set: 26, Delete: 9, Get: 3, GetItem: 3, Exist: 1, MinMax: 2, Totals: 1, Visit: 4, Iter: 1, Len: 1,
	Flush: 10, Evict: 4, Reopen: 4, Snapshot: 3, SnapRead: 5, SnapClose: 2, SnapRevert: 2, SnapOfSnap: 1, SnapMutate: 2,
	SetCollNew: 2, SetCollExisting: 1, RemoveColl: 2, GetColl: 1, FlushRevert: 3, CollWrite: 2, CopyTo: 2, Close: 1, FaultyFlush: 2}

func init() {
	register(&Prop{
		ID: "C09", Level: "exploration",
		Rule: "the append-only monitor lives inside the instrumented StoreFile and judges EVERY WriteAt/Truncate the store issues, with the API call in progress as a tag: a write must start at or beyond the end of the last durable root record (maintained by the file object itself: a completed write that is exactly one root record raises it, Truncate lowers it), may only be issued by Flush, Collection.Write or the destination side of CopyTo, and a Truncate only by FlushRevert of the writable store and only to 0 or to the end of a root record still in the file. History cases: random histories over all operations (incl. flushes that fail on one write - outright or torn - and are retried, snapshots and their FlushRevert / refused mutations, CopyTo, FlushRevert, Collection.Write, re-opens on files with unreferenced tails). Sweep cases: a flushed file is brought into each cache state {freshly re-opened, partially loaded, evicted, with unflushed changes pending} and EVERY read-only entry point is run (NewStore on the same file, GetCollectionNames/GetCollection, Get/GetItem/Exist/Min/Max/GetTotals, all visit kinds incl. Random and BlockEx, iterators, Len, EvictSomeItems, Snapshot and everything through it incl. its FlushRevert and refused mutations, CopyTo as source, Stats/AllocStats/MarshalJSON); after each one the file must have received zero writes/truncates and be byte-identical. Re-entrant cases: the BeforeItemWrite callback, called in the middle of a Flush for an item of one collection, records the fact in another collection and then calls Flush again / Write() on that other collection / nothing (store use from inside a callback on the writer goroutine); every write of the outer and of the nested call is judged by the same monitor. Cross-check case (thorough tier only): a fixed history (flushes, re-open, read-only activity incl. snapshot FlushRevert and CopyTo source, FlushRevert, flush after revert) runs on a real os.File under strace -f; the pwrite64/ftruncate calls the kernel saw on that file must equal, in order, the WriteAt/Truncate calls at the StoreFile interface, no positionless write(2) may reach it, and tools/view (names / items) under strace must neither open it for writing nor change it; if ptrace is not permitted the case reports itself as skipped. Non-trivial = history with >= 2 flushes and a revert or re-open, or any sweep; distinct = op-trace hash / (sweep, state).",
		Assumptions: []string{
			"'for all call paths from the read-only entry points' is covered only as far as the sweeps and histories execute them; the evidence lists entry point x cache state combinations exercised",
			"a root record whose write reported an error is not durable for this monitor",
		},
		NumCases: func(tier string) int {
			return pick(tier, 600, 20000) + pick(tier, 80, 2000) + pick(tier, 0, 1) + pick(tier, 90, 3000)
		},
		Run: runC09,
		Floor: func(tier string, st map[string]int64) string {
			for _, k := range []string{"file.writes", "file.truncates", "c09.sweep-calls", "c09.sweep/state=reopened", "c09.sweep/state=evicted", "c09.sweep/state=pending", "c09.sweep/state=partial", "op.SnapRevert", "op.CopyTo", "op.FlushRevert", "op.CollWrite", "c09.reentrant/nested-flushes", "c09.reentrant/nested-collection-writes", "c09.large-root-record-cases"} {
				if st[k] == 0 {
					return "no " + k + " observed"
				}
			}
			return ""
		},
	})
}

func runC09(ctx *Ctx, idx int) Result {
	seed := CaseSeed(ctx.Seed, "C09", idx)
	r := gen.New(seed)
	SeedGlobalRand(seed)
	nh := pick(ctx.Tier, 600, 20000)
	if ctx.Thorough() && idx == nh+pick(ctx.Tier, 80, 2000) {
		// syscall-level cross-check (one case): a fixed history on a real os.File under strace
		return runC09Strace(ctx, idx)
	}
	if idx >= nh+pick(ctx.Tier, 80, 2000)+pick(ctx.Tier, 0, 1) {
		return runC09Reentrant(ctx, idx, r)
	}
	if idx >= nh {
		return runC09Sweep(ctx, idx, r)
	}
	if idx%1000 == 7 {
		return runC09Sizes(ctx, idx, r)
	}
	cfg := driver.Config{ReadbackK: []int{0, 2, 5}[r.Intn(3)], KeepLog: true, CB: driver.CBMask(r.Intn(64)) &^ (driver.CBAlloc | driver.CBRef)}
	hc := HistCfg{Steps: r.Range(25, 80), NColls: r.Range(1, 3), NKeys: r.Range(4, 12), KeyClass: gen.KeysShort, ValClass: gen.ValsMixed,
		Prio: gen.PrioRegime(r.Intn(int(gen.NumPrioRegimes))), Mix: mixC09, MaxSnaps: 3}
	h := NewHist(r, cfg, hc, fmt.Sprintf("c09-%d", idx))
	h.Run()
	ctx.Add(h.E)
	nt := len(h.E.M.Flushes) >= 1 && h.Feat["flush"] && (h.Feat["flushrevert"] || h.Feat["reopen"])
	return Result{Hash: histHash(h.E), NonTrivial: nt, Viol: violOf(h.E),
		Sample: map[string]interface{}{"index": idx, "features": featList(h.Feat), "file_writes": h.E.F.NWrites, "file_truncates": h.E.F.NTruncs, "ops": tail(h.E.Trace, 30)}}
}

// runC09Sizes: the append-only rules across root records of unusual size: a small flush, then a root record
// of 70-150 KiB (a few thousand collections), re-opens, further flushes, reverts - every write and truncate
// is judged by the file monitor as in every other case.
func runC09Sizes(ctx *Ctx, idx int, r *gen.R) Result {
	e := driver.NewEnv(fmt.Sprintf("c09sz-%d", idx), driver.Config{})
	e.SetCollection("first", "")
	e.SetItem("first", []byte("k"), []byte("v"), 5, false)
	e.Flush()
	nc := r.Range(1900, 3200)
	name := func(i int) string {
		return fmt.Sprintf("collection-%05d-%s", i, "padding-padding-padding"[:r.Intn(22)])
	}
	for i := 0; i < nc && !e.Failed(); i++ {
		n := name(i)
		e.SetCollection(n, "")
		if i%11 == 0 {
			e.SetItem(n, []byte("k"), []byte(fmt.Sprintf("v%d", i)), int32(i+1), false)
		}
	}
	e.Flush()
	if !e.Failed() {
		e.Reopen(true)
	}
	for round := 0; round < 3 && !e.Failed(); round++ {
		e.SetItem("first", []byte(fmt.Sprintf("late-%d", round)), []byte("x"), int32(100+round), false)
		e.Flush()
		e.Reopen(round%2 == 0)
	}
	e.FlushRevert()
	if !e.Failed() {
		e.SetItem("first", []byte("after-revert"), []byte("y"), 77, false)
		e.Flush()
		e.Reopen(true)
		e.ReadbackAll(driver.RAscVal)
	}
	ctx.Stats["c09.large-root-record-cases"]++
	ctx.Add(e)
	return Result{Hash: gen.Mix(9, uint64(idx)), NonTrivial: true, Viol: violOf(e),
		Sample: map[string]interface{}{"index": idx, "scripted": "large-root-record", "collections": nc, "file_writes": e.F.NWrites}}
}

func runC09Sweep(ctx *Ctx, idx int, r *gen.R) Result {
	state := idx % 4
	stateName := []string{"reopened", "partial", "evicted", "pending"}[state]
	cfg := driver.Config{KeepLog: true}
	hc := HistCfg{Steps: r.Range(10, 30), NColls: r.Range(1, 3), NKeys: r.Range(4, 30), KeyClass: gen.KeysShort, ValClass: gen.ValsMixed,
		Prio: gen.PrioDistinct, Mix: Mix{Set: 30, Delete: 6, Flush: 6, SetCollNew: 1}}
	h := NewHist(r, cfg, hc, fmt.Sprintf("c09s-%d", idx))
	e := h.E
	h.Run()
	e.Flush()
	switch state {
	case 0:
		e.Reopen(true)
	case 1:
		e.Reopen(false)
		for _, n := range e.M.Live.Names() {
			for j := 0; j < 3; j++ {
				e.GetItem(-1, n, h.key(n, 90), r.Bool())
			}
		}
	case 2:
		for _, n := range e.M.Live.Names() {
			e.Evict(n, 6)
		}
	case 3:
		for j := 0; j < 5; j++ {
			h.Step() // unflushed mutations pending (Flush weight is small; a flush here is harmless)
		}
	}
	e.AfterStep()
	ctx.Stats["c09.sweep/state="+stateName]++
	calls := 0
	quiet := func(what, tag string, fn func()) {
		if e.Failed() {
			return
		}
		e.CurOp = what
		before := e.F.Bytes()
		w0 := e.F.NWrites + e.F.NTruncs
		e.F.SetTag(tag)
		func() {
			defer func() {
				if p := recover(); p != nil {
					e.Failf("panic/sweep/"+what, "%s panicked: %v", what, p)
				}
			}()
			fn()
		}()
		e.F.SetTag("")
		calls++
		ctx.Stats["c09.sweep-entry/"+what]++
		if e.F.NWrites+e.F.NTruncs != w0 {
			e.Failf("C09/read-only-entry-point-wrote/"+what, "%s issued %d write/truncate call(s) (cache state: %s)", what, e.F.NWrites+e.F.NTruncs-w0, stateName)
			return
		}
		if !bytes.Equal(before, e.F.Bytes()) {
			e.Failf("C09/read-only-entry-point-changed-file/"+what, "%s changed the file image (cache state: %s)", what, stateName)
		}
	}
	s := e.S
	discard := func(i *gkvlite.Item) bool { return true }
	discardEx := func(i *gkvlite.Item, d uint64) bool { return true }
	quiet("NewStore", "Open", func() { gkvlite.NewStore(e.F) })
	quiet("GetCollectionNames", "names", func() { s.GetCollectionNames() })
	for _, n := range e.M.Live.Names() {
		c := e.H[n]
		m := e.M.Live.Colls[n]
		k := h.key(n, 80)
		quiet("GetCollection", "getcoll", func() { s.GetCollection(n) })
		quiet("Get", "Get", func() { c.Get(k) })
		quiet("GetItem", "GetItem(kv)", func() { c.GetItem(k, true) })
		quiet("GetItem-keyonly", "GetItem(k)", func() { c.GetItem(k, false) })
		quiet("Exist", "Exist", func() { c.Exist(k) })
		quiet("MinItem", "Min(kv)", func() { c.MinItem(true) })
		quiet("MaxItem", "Max(k)", func() { c.MaxItem(false) })
		quiet("GetTotals", "Totals", func() { c.GetTotals() })
		quiet("VisitItemsAscend", "VisitAsc(kv)", func() { c.VisitItemsAscend(Target(r, m, nil), true, discard) })
		quiet("VisitItemsDescend", "VisitDesc(k)", func() { c.VisitItemsDescend(Target(r, m, nil), false, discard) })
		quiet("VisitItemsAscendEx", "VisitAsc(k)", func() { c.VisitItemsAscendEx(nil, false, discardEx) })
		quiet("VisitItemsDescendEx", "VisitDesc(kv)", func() { c.VisitItemsDescendEx([]byte{0xff, 0xff, 0xff, 0xff}, true, discardEx) })
		quiet("VisitItemsRandom", "VisitRandom", func() { c.VisitItemsRandom(discardEx) })
		quiet("VisitItemsAscendBlockEx", "VisitBlock", func() { c.VisitItemsAscendBlockEx(true, gkvlite.RandBm, discardEx) })
		quiet("IterateAscend", "IterAsc(kv)", func() {
			it := c.IterateAscend(nil, true)
			for i := 0; it.Next() && i < 3; i++ {
			}
			it.Close()
			driver.WaitIterProducers(20e9)
		})
		quiet("IterateDescend", "IterDesc(k)", func() {
			it := c.IterateDescend([]byte{0xff, 0xff}, false)
			for it.Next() {
			}
			it.Close()
			driver.WaitIterProducers(20e9)
		})
		quiet("Len", "Len", func() { c.Len() })
		quiet("EvictSomeItems", "Evict", func() { c.EvictSomeItems() })
		quiet("AllocStats", "stats", func() { c.AllocStats() })
		quiet("MarshalJSON", "stats", func() { c.MarshalJSON() })
	}
	quiet("Stats", "stats", func() { s.Stats(map[string]uint64{}) })
	var snap *gkvlite.Store
	quiet("Snapshot", "Snapshot", func() { snap = s.Snapshot() })
	if snap != nil {
		for _, n := range snap.GetCollectionNames() {
			sc := snap.GetCollection(n)
			quiet("snapshot/Get", "snap:Get", func() { sc.Get(h.key(n, 80)) })
			quiet("snapshot/VisitItemsAscend", "snap:VisitAsc(kv)", func() { sc.VisitItemsAscend(nil, true, discard) })
			quiet("snapshot/EvictSomeItems", "snap:Evict", func() { sc.EvictSomeItems() })
			quiet("snapshot/refused-mutations", "snap:Mutate", func() {
				sc.Set([]byte("k"), []byte("v"))
				sc.Delete(h.key(n, 100))
				sc.Write()
				snap.Flush()
			})
		}
		quiet("snapshot/CopyTo(src)", "snap:CopyTo(src)", func() {
			snap.CopyTo(newScratchFile(), r.Range(0, 3))
		})
		quiet("snapshot/Snapshot", "snap:Snapshot", func() { snap.Snapshot().Close() })
		quiet("snapshot/FlushRevert", "snap:FlushRevert", func() { snap.FlushRevert() })
		quiet("snapshot/Close", "snap:Close", func() { snap.Close() })
	}
	quiet("CopyTo(src)", "CopyTo(src)", func() { s.CopyTo(newScratchFile(), r.Range(-1, 4)) })
	e.AfterStep() // the tag monitor's verdicts
	// the store must still work and flush correctly after the sweep
	if !e.Failed() {
		e.ReadbackAll(driver.RAll)
		e.Flush()
		e.AfterStep()
	}
	ctx.Stats["c09.sweep-calls"] += int64(calls)
	ctx.Add(e)
	return Result{Hash: gen.Mix(uint64(idx), 9), NonTrivial: true, Viol: violOf(e),
		Sample: map[string]interface{}{"index": idx, "sweep": true, "cache_state": stateName, "read_only_calls": calls, "collections": e.M.Live.Names()}}
}

// runC09Reentrant: the store is used from inside BeforeItemWrite, i.e. in the middle of a Flush: the
// callback adds an entry to another collection and (mode 0) flushes again, (mode 1) writes that
// collection, (mode 2) leaves it dirty.  Only the property's own rule is judged: every WriteAt of the
// outer and the nested call goes through the append-only monitor of the instrumented file.
func runC09Reentrant(ctx *Ctx, idx int, r *gen.R) Result {
	return runReentrantWrites(ctx, idx, r, idx%3, false)
}

// runReentrantWrites is the scenario of runC09Reentrant; with decode set (C14) the file is parsed by the
// independent decoder after every outer Flush that succeeded with all its nested calls: it must be
// structurally valid and its "data" collection must hold exactly what was set.
func runReentrantWrites(ctx *Ctx, idx int, r *gen.R, mode int, decode bool) Result {
	f := vfile.New(fmt.Sprintf("c09r-%d", idx))
	want := map[string][]byte{}
	var s *gkvlite.Store
	depth, nested := 0, 0
	audited := map[string]bool{}
	var cbErr error
	cb := gkvlite.StoreCallbacks{
		BeforeItemWrite: func(c *gkvlite.Collection, i *gkvlite.Item) (*gkvlite.Item, error) {
			if depth > 0 || c.Name() != "data" || audited[string(i.Key)] {
				return i, nil
			}
			depth++
			defer func() { depth-- }()
			audited[string(i.Key)] = true
			a := s.GetCollection("audit")
			if err := a.Set(append([]byte("wrote-"), i.Key...), []byte("x")); err != nil {
				cbErr = err
				return i, nil
			}
			switch mode {
			case 0:
				if err := s.Flush(); err != nil {
					cbErr = err
				}
				ctx.Stats["c09.reentrant/nested-flushes"]++
			case 1:
				if err := a.Write(); err != nil {
					cbErr = err
				}
				ctx.Stats["c09.reentrant/nested-collection-writes"]++
			}
			nested++
			return i, nil
		},
	}
	var trace []string
	var viol *Viol
	// errors returned by the (nested) calls are not the property's business: they end the case, only
	// the file monitor's verdicts (and a panic) are reported
	stopped := false
	fail := func(sig, detail string) {
		if hasPrefix(sig, "panic/") {
			if viol == nil {
				viol = &Viol{Sig: sig, Detail: detail, Trace: tail(trace, 30)}
			}
			return
		}
		stopped = true
		ctx.Stats["c09.reentrant/cases-ended-by-an-error"]++
		trace = append(trace, sig+": "+detail)
	}
	open := func() {
		f.SetTag("Open")
		var err error
		s, err = gkvlite.NewStoreEx(f, cb)
		f.SetTag("")
		if err != nil {
			fail("C09/reentrant/open-error", fmt.Sprintf("NewStoreEx: %v", err))
		}
	}
	func() {
		defer func() {
			if p := recover(); p != nil {
				fail("panic/C09-reentrant", fmt.Sprintf("panic: %v", p))
			}
		}()
		open()
		if viol != nil || stopped {
			return
		}
		f.SetTag("SetCollection")
		s.SetCollection("audit", nil)
		s.SetCollection("data", nil)
		f.SetTag("")
		rounds := r.Range(1, 4)
		for round := 0; round < rounds && viol == nil && !stopped; round++ {
			data := s.GetCollection("data")
			for k, n := 0, r.Range(1, 6); k < n; k++ {
				key := []byte(fmt.Sprintf("%c%d-%d", 'a'+r.Intn(6), round, k))
				f.SetTag("Set")
				val := r.Bytes(r.Range(0, 90))
				err := data.Set(key, val)
				if err == nil {
					want[string(key)] = val
				}
				f.SetTag("")
				trace = append(trace, fmt.Sprintf("data.Set(%s)", key))
				if err != nil {
					fail("C09/reentrant/set-error", err.Error())
				}
			}
			f.SetTag("Flush")
			err := s.Flush()
			f.SetTag("")
			trace = append(trace, fmt.Sprintf("Flush (mode %d, %d callbacks re-entered so far) -> %v", mode, nested, err))
			if err != nil {
				fail("C09/reentrant/flush-error", err.Error())
			}
			if decode && err == nil && cbErr == nil && viol == nil && !stopped {
				b := f.Bytes()
				img, derr := decoder.Decode(b, int64(len(b)), func(string) decoder.Compare { return bytes.Compare })
				ctx.Stats["c14.reentrant-images-decoded"]++
				if derr != nil {
					viol = &Viol{Sig: "C14/reentrant-callback/structural", Detail: fmt.Sprintf("[store used from inside BeforeItemWrite] the independent decoder rejects the file a successful Flush left: %v", derr), Trace: tail(trace, 30)}
				} else if dc := img.Colls["data"]; dc == nil || len(dc.Items) != len(want) {
					viol = &Viol{Sig: "C14/reentrant-callback/state-mismatch", Detail: fmt.Sprintf("[store used from inside BeforeItemWrite] the file decodes to a data collection of another size than the %d items set", len(want)), Trace: tail(trace, 30)}
				} else {
					for _, it := range dc.Items {
						if w, ok := want[string(it.Key)]; !ok || !bytes.Equal(w, it.Val) {
							viol = &Viol{Sig: "C14/reentrant-callback/state-mismatch", Detail: fmt.Sprintf("[store used from inside BeforeItemWrite] key %q decodes to a value that was not set", it.Key), Trace: tail(trace, 30)}
							break
						}
					}
				}
			}
			if r.P(30) && viol == nil && !stopped {
				s.Close()
				open()
				trace = append(trace, "re-open")
			}
		}
	}()
	if cbErr != nil {
		fail("C09/reentrant/nested-call-error", cbErr.Error())
	}
	if len(f.Violations) > 0 && viol == nil {
		v := f.Violations[0]
		sig := v
		if i := indexOf(v, ": "); i >= 0 {
			sig = v[:i]
		}
		viol = &Viol{Sig: sig + "/reentrant", Detail: "[store used from inside BeforeItemWrite, mode " + []string{"nested Flush", "nested Collection.Write", "mutation only"}[mode] + "] " + v, Trace: tail(trace, 30)}
	}
	ctx.Stats["file.writes"] += int64(f.NWrites)
	ctx.Stats["c09.reentrant/callbacks-re-entered"] += int64(nested)
	return Result{Hash: gen.Mix(uint64(idx), uint64(f.NWrites)), NonTrivial: nested > 0, Viol: viol,
		Sample: map[string]interface{}{"index": idx, "reentrant": true, "mode": mode, "callbacks_re_entered": nested, "file_writes": f.NWrites}}
}

func indexOf(s, sub string) int {
	for i := 0; i+len(sub) <= len(s); i++ {
		if s[i:i+len(sub)] == sub {
			return i
		}
	}
	return -1
}
