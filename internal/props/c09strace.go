package props

import (
	"bufio"
	"bytes"
	"crypto/sha256"
	"encoding/json"
	"fmt"
	"os"
	"os/exec"
	"path/filepath"
	"regexp"
	"strconv"
	"strings"
	"sync"

	"github.com/cbehopkins/gkvlite"
)

// osFile is a concurrency-safe, logging wrapper around a real *os.File.
type osFile struct {
	mu  sync.Mutex
	f   *os.File
	log []string
}

func (o *osFile) ReadAt(p []byte, off int64) (int, error) { return o.f.ReadAt(p, off) }
func (o *osFile) WriteAt(p []byte, off int64) (int, error) {
	if len(p) > 0 { // (os.File.WriteAt issues no system call for an empty slice)
		o.mu.Lock()
		o.log = append(o.log, fmt.Sprintf("pwrite %d %d", off, len(p)))
		o.mu.Unlock()
	}
	return o.f.WriteAt(p, off)
}
func (o *osFile) Stat() (os.FileInfo, error) { return o.f.Stat() }
func (o *osFile) Truncate(size int64) error {
	o.mu.Lock()
	o.log = append(o.log, fmt.Sprintf("ftruncate %d", size))
	o.mu.Unlock()
	return o.f.Truncate(size)
}

// StraceHelper runs a fixed history on a real file and prints the writes and
// truncates it saw at the StoreFile interface, one per line.
func StraceHelper(path string) int {
	f, err := os.OpenFile(path, os.O_RDWR|os.O_CREATE|os.O_TRUNC, 0644)
	if err != nil {
		fmt.Println("error", err)
		return 2
	}
	of := &osFile{f: f}
	s, err := gkvlite.NewStore(of)
	if err != nil {
		fmt.Println("error", err)
		return 2
	}
	a := s.SetCollection("a", nil)
	b := s.SetCollection("b", nil)
	for i := 0; i < 40; i++ {
		a.Set([]byte(fmt.Sprintf("key-%03d", i)), bytes.Repeat([]byte{byte('a' + i%26)}, 10+i*7))
		if i%3 == 0 {
			b.Set([]byte(fmt.Sprintf("idx-%03d", i)), []byte{})
		}
		if i%10 == 9 {
			s.Flush()
		}
	}
	s.Flush()
	// read-only activity: must not reach the file as writes
	s2, _ := gkvlite.NewStore(of)
	a2 := s2.GetCollection("a")
	a2.VisitItemsAscend(nil, true, func(i *gkvlite.Item) bool { return true })
	a2.Get([]byte("key-007"))
	a2.EvictSomeItems()
	sn := s2.Snapshot()
	sn.GetCollection("b").VisitItemsDescend([]byte("zzz"), false, func(i *gkvlite.Item) bool { return true })
	sn.FlushRevert()
	sn.Close()
	cp, _ := os.CreateTemp(filepath.Dir(path), "copy")
	s2.CopyTo(cp, 7)
	cp.Close()
	os.Remove(cp.Name())
	// more writes, a revert, and a flush after it
	a2.Delete([]byte("key-003"))
	a2.Set([]byte("key-100"), []byte("after reopen"))
	s2.Flush()
	a2.Set([]byte("key-101"), []byte("to be reverted"))
	s2.Flush()
	s2.FlushRevert()
	s2.GetCollection("a").Set([]byte("key-102"), []byte("after revert"))
	s2.Flush()
	for _, l := range of.log {
		fmt.Println(l)
	}
	f.Close()
	return 0
}

// (with -f a call may be split into "<unfinished ...>" / "resumed" lines: match the call part only)
var pwRe = regexp.MustCompile(`pwrite64\((\d+)<([^>]*)>, .*, (\d+), (\d+)(\)| <unfinished)`)
var ftRe = regexp.MustCompile(`ftruncate\((\d+)<([^>]*)>, (\d+)(\)| <unfinished)`)
var wrRe = regexp.MustCompile(`\bwrite\((\d+)<([^>]*)>`)

// runC09Strace is the syscall-level cross-check: what the kernel saw must be
// exactly what the StoreFile interface saw, and tools/view must not write.
func runC09Strace(ctx *Ctx, idx int) Result {
	skip := func(why string) Result {
		ctx.Stats["c09.strace-skipped"]++
		return Result{Hash: uint64(idx), NonTrivial: false, Sample: map[string]interface{}{"index": idx, "strace_cross_check": "skipped: " + why}}
	}
	if _, err := exec.LookPath("strace"); err != nil {
		return skip("strace not installed")
	}
	self, err := os.Executable()
	if err != nil {
		return skip(err.Error())
	}
	dir, err := os.MkdirTemp(filepath.Dir(self), "strace")
	if err != nil {
		return skip(err.Error())
	}
	defer os.RemoveAll(dir)
	data := filepath.Join(dir, "data.gkvlite")
	trace := filepath.Join(dir, "trace.txt")
	cmd := exec.Command("strace", "-f", "-y", "-qq", "-e", "trace=pwrite64,write,ftruncate,truncate", "-o", trace, self, "-strace-helper", data)
	out, err := cmd.Output()
	if err != nil {
		return skip("strace run failed (ptrace not permitted?): " + err.Error())
	}
	var want []string
	for _, l := range strings.Split(strings.TrimSpace(string(out)), "\n") {
		if strings.HasPrefix(l, "pwrite") || strings.HasPrefix(l, "ftruncate") {
			want = append(want, l)
		}
	}
	tf, err := os.Open(trace)
	if err != nil {
		return skip(err.Error())
	}
	var got []string
	var viol *Viol
	sc := bufio.NewScanner(tf)
	sc.Buffer(make([]byte, 1<<20), 1<<24)
	for sc.Scan() {
		l := sc.Text()
		if m := pwRe.FindStringSubmatch(l); m != nil && m[2] == data {
			got = append(got, fmt.Sprintf("pwrite %s %s", m[4], m[3]))
		} else if m := ftRe.FindStringSubmatch(l); m != nil && m[2] == data {
			got = append(got, fmt.Sprintf("ftruncate %s", m[3]))
		} else if m := wrRe.FindStringSubmatch(l); m != nil && m[2] == data && viol == nil {
			viol = &Viol{Sig: "C09/strace/positionless-write", Detail: "a write(2) without offset reached the store file: " + l}
		} else if strings.Contains(l, "truncate(\"") && strings.Contains(l, data) && viol == nil {
			viol = &Viol{Sig: "C09/strace/path-truncate", Detail: "a truncate(2) by path reached the store file: " + l}
		}
	}
	tf.Close()
	if viol == nil && strings.Join(got, "\n") != strings.Join(want, "\n") {
		viol = &Viol{Sig: "C09/strace/syscalls-differ-from-storefile-log", Detail: fmt.Sprintf("the kernel saw %d pwrite/ftruncate calls on the store file, the StoreFile interface %d; first difference at %d", len(got), len(want), firstDiff(got, want))}
	}
	ctx.Stats["c09.strace-syscalls-compared"] += int64(len(got))
	// tools/view must not modify the file
	view := filepath.Join(filepath.Dir(self), "view")
	if _, err := os.Stat(view); err == nil && viol == nil {
		before := fileHash(data)
		for _, args := range [][]string{{data}, {data, "names"}, {data, "items", "a"}, {"-indent", data, "items", "b"}} {
			vt := filepath.Join(dir, "view-trace.txt")
			c := exec.Command("strace", append([]string{"-f", "-y", "-qq", "-e", "trace=pwrite64,write,ftruncate,truncate,openat", "-o", vt, view}, args...)...)
			c.Run()
			b, _ := os.ReadFile(vt)
			for _, l := range strings.Split(string(b), "\n") {
				if (strings.Contains(l, "pwrite64(") || strings.Contains(l, "ftruncate(") || wrRe.MatchString(l)) && strings.Contains(l, "<"+data+">") {
					viol = &Viol{Sig: "C09/strace/tools-view-writes", Detail: "tools/view issued a write/truncate on the store file: " + l}
				}
				if strings.Contains(l, "openat(") && strings.Contains(l, data) && (strings.Contains(l, "O_WRONLY") || strings.Contains(l, "O_RDWR") || strings.Contains(l, "O_TRUNC")) {
					viol = &Viol{Sig: "C09/strace/tools-view-opens-for-writing", Detail: "tools/view opened the store file for writing: " + l}
				}
			}
			ctx.Stats["c09.strace-view-runs"]++
		}
		if viol == nil && fileHash(data) != before {
			viol = &Viol{Sig: "C09/strace/tools-view-changed-file", Detail: "the store file changed while tools/view inspected it"}
		}
	}
	ctx.Stats["c09.strace-cross-checks"]++
	return Result{Hash: uint64(idx), NonTrivial: true, Viol: viol,
		Sample: map[string]interface{}{"index": idx, "strace_cross_check": "done", "syscalls_on_store_file": len(got), "storefile_log_entries": len(want)}}
}

func firstDiff(a, b []string) int {
	for i := 0; i < len(a) && i < len(b); i++ {
		if a[i] != b[i] {
			return i
		}
	}
	if len(a) < len(b) {
		return len(a)
	}
	return len(b)
}

func fileHash(p string) string {
	b, _ := os.ReadFile(p)
	h := sha256.Sum256(b)
	return strconv.Itoa(len(b)) + ":" + fmt.Sprintf("%x", h[:8])
}

var _ = json.Marshal
