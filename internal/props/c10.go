package props

import (
	"fmt"

	"verif/internal/driver"
	"verif/internal/gen"
)

// C10: internal node recycling is invisible to every open handle.

var mixC10 = Mix{Set: 24, Delete: 10, Get: 2, GetItem: 3, MinMax: 2, Visit: 3, Iter: 1, Flush: 5, Evict: 5, Reopen: 2,
	Snapshot: 6, SnapRead: 6, SnapClose: 6, SnapOfSnap: 2, SnapRevert: 1,
	SetCollNew: 2, SetCollExisting: 4, RemoveColl: 3, FlushRevert: 1, Close: 2, PinVisit: 6, ResumeVisit: 6, CopyTo: 1, FaultyMut: 4}

func init() {
	register(&Prop{
		ID: "C10", Level: "exploration",
		Rule: "case = 2-3 stores (file-backed and memory-only) in one process, sharing gkvlite's package-global free lists, each with 1-3 collections; every step picks a store and performs one operation: mutations, visits that are SUSPENDED inside their callback while later steps run and are resumed afterwards (readers holding version pins), snapshots (and snapshots of snapshots) released in arbitrary order, SetCollection on existing names, RemoveCollection, Close, re-open, FlushRevert, and mutations that fail half way because one file read fails (after which later successful mutations supersede the touched nodes). After EVERY step: (a) reuse forcing - a scratch store takes every node off the free list and overwrites it with foreign data; (b) the complete contents of every open handle of every store are compared with per-handle models; (c) with the verif hooks, no node reachable from a live version is on a free list, zeroed, or carries the reclaim mark of a version that can die first, and no live version handle / root nodeLoc is on its free list. Parallel cases: 8 goroutines pin and release the SAME version through the original handle and 1-3 snapshot handles in true parallelism (4000 lookups/visits each); afterwards the version's pin count (hook) must be exactly one per open handle, all handles must read correctly, and the snapshots are then released one by one with mutations in between. Release-under-visit cases (memory-only stores): a visit is in flight on a snapshot / a snapshot of a snapshot / the original whose other owners have already moved on, and from inside its callback the last owner is released (snapshot.Close, original.Close, RemoveCollection) and a foreign store allocates enough to reuse everything that was freed; the visit must not panic and every item it still delivers must be the next item of the version it started on (stopping early or an error is accepted), and the handles that stay open must read back completely. Non-trivial = at least one version was released (snapshot/visit/collection/store) while another handle sharing nodes stayed open and was read afterwards, and nodes were actually recycled; distinct = distinct op-trace hash.",
		Assumptions: []string{
			"handles of replaced/removed collections and closed stores are not used again, except by a visit that was already in flight",
			"one mutator per store; the suspended readers are blocked, so there is no true parallelism in this check (that is C05's)",
		},
		NumCases: func(tier string) int { return pick(tier, 800, 30000) + pick(tier, 24, 600) + pick(tier, 400, 12000) },
		Run:      runC10,
		Floor: func(tier string, st map[string]int64) string {
			for _, k := range []string{"op.PinVisit", "op.ResumeVisit", "op.SnapClose", "op.SetCollection.existing", "op.RemoveCollection", "churn.inserts", "walks", "c10.nodes-recycled", "c10.multi-store-cases", "failed-mutations", "c10.parallel-reader-cases", "c10.release-under-visit-cases", "c10.release-under-visit/completed", "c10.flush-in-flight-owner-stores"} {
				if st[k] == 0 {
					return "no " + k + " observed"
				}
			}
			return ""
		},
	})
}

func runC10(ctx *Ctx, idx int) Result {
	seed := CaseSeed(ctx.Seed, "C10", idx)
	r := gen.New(seed)
	SeedGlobalRand(seed)
	if idx >= pick(ctx.Tier, 800, 30000)+pick(ctx.Tier, 24, 600) {
		return runC10ReleaseUnderVisit(ctx, idx, r)
	}
	if idx >= pick(ctx.Tier, 800, 30000) {
		return runC10Parallel(ctx, idx, r)
	}
	nStores := r.Range(2, 3)
	var hs []*Hist
	for i := 0; i < nStores; i++ {
		cfg := driver.Config{MemOnly: r.P(35), ReadbackK: 0, Walk: true, Churn: true}
		hc := HistCfg{NColls: r.Range(1, 3), NKeys: r.Range(4, 10), KeyClass: gen.KeysShort, ValClass: gen.ValsShort,
			Prio: gen.PrioRegime(r.Intn(int(gen.NumPrioRegimes))), Mix: mixC10, MaxSnaps: 3}
		if idx%5 == 4 && !cfg.MemOnly {
			// a Flush in flight is a version owner too: its BeforeItemWrite callback re-sets items of another
			// collection, which thereby gets several new versions while the Flush still holds the one it pinned
			cfg.CB, cfg.TouchMany, cfg.ReopenCheck = driver.CBTouchOther, true, true // (what the Flush saw of its version is read back from a copy of the file)
			if hc.NColls < 2 {
				hc.NColls = 2
			}
			ctx.Stats["c10.flush-in-flight-owner-stores"]++
		}
		hs = append(hs, NewHist(r.Fork(), cfg, hc, fmt.Sprintf("c10-%d-s%d", idx, i)))
	}
	steps := r.Range(30, 80)
	failed := func() *Hist {
		for _, h := range hs {
			if h.E.Failed() {
				return h
			}
		}
		return nil
	}
	freed0 := freedNodes(hs)
	var trace []string
	for s := 0; s < steps && failed() == nil; s++ {
		h := hs[r.Intn(len(hs))]
		h.Step()
		if n := len(h.E.Trace); n > 0 {
			trace = append(trace, h.E.Name+": "+h.E.Trace[n-1])
		}
		// monitors over ALL stores after every step
		for _, o := range hs {
			if failed() != nil {
				break
			}
			o.E.AfterStep() // file rules + hook walk
			o.E.ReadbackAll(driver.RAscVal | driver.RTotals | driver.RMinMax)
		}
	}
	for _, h := range hs {
		if failed() == nil {
			h.E.ResumeAll()
			h.E.AfterStep()
		}
	}
	ctx.Stats["c10.nodes-recycled"] += freedNodes(hs) - freed0
	ctx.Stats["c10.multi-store-cases"]++
	var viol *Viol
	feats := map[string]bool{}
	hash := uint64(7)
	for _, h := range hs {
		ctx.Add(h.E)
		if viol == nil && h.E.Failed() {
			viol = violOf(h.E)
			viol.Trace = tail(trace, 60)
		}
		for k, v := range h.Feat {
			if v {
				feats[k] = true
			}
		}
		hash = gen.Mix(hash, histHash(h.E))
	}
	nt := (feats["snapclose"] || feats["resumevisit"] || feats["setcoll-existing-nonempty"] || feats["removecoll-nonempty"] || feats["close"]) && (feats["overwrite"] || feats["delete"])
	return Result{Hash: hash, NonTrivial: nt, Viol: viol,
		Sample: map[string]interface{}{"index": idx, "stores": nStores, "features": featList(feats), "ops": tail(trace, 40)}}
}

// freedNodes sums the per-collection FreeNodes counters visible through the public AllocStats.
func freedNodes(hs []*Hist) int64 {
	var n int64
	for _, h := range hs {
		for _, c := range h.E.H {
			if c != nil {
				n += c.AllocStats().FreeNodes
			}
		}
	}
	return n
}
