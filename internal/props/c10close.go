package props

import (
	"bytes"
	"fmt"

	"github.com/cbehopkins/gkvlite"

	"verif/internal/gen"
)

// runC10ReleaseUnderVisit: the owner of a version (a snapshot, the original store, the collection
// entry) is released from INSIDE the callback of a visit that is in flight on that very version,
// after the other owners have moved on, so that the visit's own pin is the last thing that keeps
// the version's nodes off the free lists; unrelated allocation then forces reuse of whatever was
// freed, and the visit goes on.  All stores are memory-only, so no file is needed after Close().
//
// Judged: the visit must not panic, and every item it delivers must be the next item of the version
// it started on (a visit that stops early or reports an error after its owner was closed is
// accepted - the property forbids altered or corrupted contents, it does not promise the rest).
// Handles that stay open are read back completely afterwards.
func runC10ReleaseUnderVisit(ctx *Ctx, idx int, r *gen.R) Result {
	variant := idx % 5
	type kv struct {
		k, v []byte
		p    int32
	}
	s, err := gkvlite.NewStore(nil)
	if err != nil {
		return Result{Viol: &Viol{Sig: "C10/release-under-visit/new-store", Detail: err.Error()}}
	}
	c := s.SetCollection("x", nil)
	n := r.Range(3, 40)
	model := map[string]kv{}
	set := func(col *gkvlite.Collection, m map[string]kv, key string) {
		it := kv{[]byte(key), []byte(fmt.Sprintf("v-%s-%d", key, r.Intn(1000))), int32(r.U64() & 0x7fffffff)}
		if col.SetItem(&gkvlite.Item{Key: it.k, Val: it.v, Priority: it.p}) == nil {
			m[key] = it
		}
	}
	for i := 0; i < n; i++ {
		set(c, model, fmt.Sprintf("k%03d", r.Intn(3*n)))
	}
	var trace []string
	snap := s.Snapshot()
	snapModel := map[string]kv{}
	for k, v := range model {
		snapModel[k] = v
	}
	// the original moves on, so that the snapshot (and later the visit) is the version's last owner
	muts := r.Range(0, n)
	for i := 0; i < muts; i++ {
		key := fmt.Sprintf("k%03d", r.Intn(3*n))
		if r.P(30) {
			if ok, _ := c.Delete([]byte(key)); ok {
				delete(model, key)
			}
		} else {
			set(c, model, key)
		}
	}
	trace = append(trace, fmt.Sprintf("%d items, Snapshot, %d further mutations of the original", len(snapModel), muts))
	sorted := func(m map[string]kv, desc bool) []kv {
		var res []kv
		for _, v := range m {
			res = append(res, v)
		}
		for i := 1; i < len(res); i++ {
			for j := i; j > 0 && (bytes.Compare(res[j-1].k, res[j].k) > 0) != desc; j-- {
				res[j-1], res[j] = res[j], res[j-1]
			}
		}
		return res
	}
	desc, withVal := r.Bool(), r.Bool()
	var visited *gkvlite.Collection
	var exp []kv
	var keep []*gkvlite.Store // foreign stores that re-use what was freed
	churn := func() {
		z, _ := gkvlite.NewStore(nil)
		zc := z.SetCollection("z", nil)
		for i := 0; i < 3*n+64; i++ {
			zc.Set([]byte(fmt.Sprintf("z%05d", i)), []byte("foreign"))
		}
		keep = append(keep, z)
	}
	var release func()
	stillOpen := map[string]func() (*gkvlite.Collection, map[string]kv){}
	switch variant {
	case 0: // visit on the snapshot; the snapshot is closed under it
		visited, exp = snap.GetCollection("x"), sorted(snapModel, desc)
		release = func() { snap.Close(); trace = append(trace, "snapshot.Close() inside the callback") }
		stillOpen["original"] = func() (*gkvlite.Collection, map[string]kv) { return c, model }
	case 1: // visit on the snapshot; the original store is closed first, then the snapshot
		visited, exp = snap.GetCollection("x"), sorted(snapModel, desc)
		release = func() {
			s.Close()
			churn()
			snap.Close()
			trace = append(trace, "original.Close(), allocation, snapshot.Close() inside the callback")
		}
	case 2: // visit on the original; the original is closed under it, the snapshot stays
		visited, exp = c, sorted(model, desc)
		release = func() { s.Close(); trace = append(trace, "original.Close() inside the callback") }
		stillOpen["snapshot"] = func() (*gkvlite.Collection, map[string]kv) { return snap.GetCollection("x"), snapModel }
	case 3: // visit on the original; its collection is removed and the snapshot closed
		visited, exp = c, sorted(model, desc)
		release = func() {
			s.RemoveCollection("x")
			snap.Close()
			trace = append(trace, "RemoveCollection + snapshot.Close() inside the callback")
		}
	case 4: // visit on a snapshot of the snapshot; both snapshots are closed, inner first
		snap2 := snap.Snapshot()
		visited, exp = snap2.GetCollection("x"), sorted(snapModel, desc)
		release = func() {
			snap.Close()
			churn()
			snap2.Close()
			trace = append(trace, "snapshot.Close(), allocation, snapshot-of-snapshot.Close() inside the callback")
		}
		stillOpen["original"] = func() (*gkvlite.Collection, map[string]kv) { return c, model }
	}
	ctx.Stats[fmt.Sprintf("c10.release-under-visit/variant=%d", variant)]++
	var viol *Viol
	fail := func(sig, detail string) {
		if viol == nil {
			viol = &Viol{Sig: sig, Detail: detail, Trace: trace}
		}
	}
	if len(exp) == 0 {
		return Result{Hash: gen.Mix(uint64(idx), 0), Sample: map[string]interface{}{"index": idx, "empty": true}}
	}
	at := r.Intn(len(exp))
	got := 0
	var verr error
	func() {
		defer func() {
			if p := recover(); p != nil {
				fail("C10/release-under-visit/panic", fmt.Sprintf("variant %d: the visit panicked after %d of %d items, its owner having been released at item %d: %v", variant, got, len(exp), at, p))
			}
		}()
		visitor := func(i *gkvlite.Item) bool {
			if got >= len(exp) {
				fail("C10/release-under-visit/extra-item", fmt.Sprintf("variant %d: item %q delivered beyond the %d items of the version", variant, i.Key, len(exp)))
				return false
			}
			w := exp[got]
			if !bytes.Equal(i.Key, w.k) || i.Priority != w.p || (withVal && !bytes.Equal(i.Val, w.v)) {
				fail("C10/release-under-visit/wrong-item", fmt.Sprintf("variant %d: item %d delivered as (%q,%q,prio %d), the version the visit started on has (%q,%q,prio %d) there (owner released at item %d)", variant, got, i.Key, i.Val, i.Priority, w.k, w.v, w.p, at))
				return false
			}
			if got == at {
				release()
				churn()
			}
			got++
			return true
		}
		if desc {
			verr = visited.VisitItemsDescend([]byte("~~~~"), withVal, visitor)
		} else {
			verr = visited.VisitItemsAscend([]byte(""), withVal, visitor)
		}
	}()
	trace = append(trace, fmt.Sprintf("visit(desc=%v,withValue=%v) delivered %d of %d items, err=%v", desc, withVal, got, len(exp), verr))
	if verr == nil && got == len(exp) {
		ctx.Stats["c10.release-under-visit/completed"]++
	}
	churn()
	// handles that are still open must read back completely
	for name, fn := range stillOpen {
		if viol != nil {
			break
		}
		func() {
			defer func() {
				if p := recover(); p != nil {
					fail("C10/release-under-visit/open-handle-panic", fmt.Sprintf("variant %d: reading the still open %s afterwards panicked: %v", variant, name, p))
				}
			}()
			col, m := fn()
			want := sorted(m, false)
			k := 0
			err := col.VisitItemsAscend([]byte(""), true, func(i *gkvlite.Item) bool {
				if k >= len(want) || !bytes.Equal(i.Key, want[k].k) || !bytes.Equal(i.Val, want[k].v) || i.Priority != want[k].p {
					fail("C10/release-under-visit/open-handle-contents", fmt.Sprintf("variant %d: the still open %s delivers (%q,%q) as item %d; its model has %d items", variant, name, i.Key, i.Val, k, len(want)))
					return false
				}
				k++
				return true
			})
			if viol == nil && (err != nil || k != len(want)) {
				fail("C10/release-under-visit/open-handle-contents", fmt.Sprintf("variant %d: the still open %s delivered %d of %d items, err=%v", variant, name, k, len(want), err))
			}
		}()
	}
	ctx.Stats["c10.release-under-visit-cases"]++
	for _, z := range keep {
		z.Close()
	}
	return Result{Hash: gen.Mix(uint64(idx), uint64(got), uint64(at)), NonTrivial: got > at, Viol: viol,
		Sample: map[string]interface{}{"index": idx, "release_under_visit_variant": variant, "items": len(exp), "released_at": at, "delivered": got, "ops": trace}}
}
