package props

import (
	"fmt"
	"sync"

	"github.com/cbehopkins/gkvlite"

	"verif/internal/driver"
	"verif/internal/gen"
)

// runC10Parallel: readers pin and release the SAME version through different
// handles (the original collection and snapshots of it) in true parallelism.
// The pin counter is shared, so after all readers are done it must be exactly
// "one per open handle" - a lost update means a version handle gets recycled
// while handles are still open (or is never released).
func runC10Parallel(ctx *Ctx, idx int, r *gen.R) Result {
	cfg := driver.Config{Walk: true, MemOnly: idx%2 == 0}
	e := driver.NewEnv(fmt.Sprintf("c10p-%d", idx), cfg)
	e.SetCollection("p", "")
	var keys [][]byte
	for i := 0; i < 12; i++ {
		k := []byte(fmt.Sprintf("k%02d", i))
		keys = append(keys, k)
		e.SetItem("p", k, []byte(fmt.Sprintf("v%d", i)), int32(r.U64()&0x7fffffff), false)
	}
	if !cfg.MemOnly {
		e.Flush()
	}
	nSnaps := 1 + idx%3
	for i := 0; i < nSnaps; i++ {
		e.Snapshot(-1)
	}
	if idx%4 >= 2 {
		// the original's handle is a REPLACEMENT taken after the snapshots (SetCollection on the
		// existing name): it still shares the version - and must share its lock - with them
		e.SetCollection("p", "")
		ctx.Stats["c10.parallel-with-replaced-handle"]++
	}
	handles := []*gkvlite.Collection{e.H["p"]}
	for _, sn := range e.Snaps {
		handles = append(handles, sn.H["p"])
	}
	const perGoroutine = 4000
	var wg sync.WaitGroup
	var mu sync.Mutex
	var problems []string
	for g := 0; g < 8; g++ {
		wg.Add(1)
		c := handles[g%len(handles)]
		g := g
		go func() {
			defer wg.Done()
			defer func() {
				if p := recover(); p != nil {
					mu.Lock()
					problems = append(problems, fmt.Sprintf("reader %d panicked: %v", g, p))
					mu.Unlock()
				}
			}()
			for i := 0; i < perGoroutine; i++ {
				k := keys[(i+g)%len(keys)]
				switch i % 3 {
				case 0:
					if v, err := c.Get(k); err != nil || v == nil {
						mu.Lock()
						problems = append(problems, fmt.Sprintf("reader %d: Get(%s) = %q, %v", g, k, v, err))
						mu.Unlock()
						return
					}
				case 1:
					c.GetTotals()
				case 2:
					n := 0
					c.VisitItemsAscend(k, false, func(*gkvlite.Item) bool { n++; return n < 3 })
				}
			}
		}()
	}
	wg.Wait()
	ctx.Stats["c10.parallel-reader-cases"]++
	ctx.Stats["c10.parallel-pin-release-pairs"] += 8 * perGoroutine
	if len(problems) > 0 {
		e.Failf("C10/parallel-readers/"+panicOrError(problems[0]), "%s", problems[0])
	}
	if !e.Failed() {
		ri := gkvlite.VerifRootInfo(e.H["p"])
		if want := int64(1 + nSnaps); ri.Refs != want {
			e.Failf("C10/version-pin-count-not-conserved", "after %d parallel readers pinned and released the same version through the original and %d snapshot handle(s), the version's pin count is %d instead of %d (one per open handle): a concurrent update was lost", 8, nSnaps, ri.Refs, want)
		}
		for i, sn := range e.Snaps {
			if si := gkvlite.VerifRootInfo(sn.H["p"]); si.Addr != ri.Addr && !e.Failed() {
				e.Failf("C10/harness", "snapshot %d does not share the original's version", i)
			}
		}
	}
	// everything must still be intact and releasable
	if !e.Failed() {
		e.AfterStep()
		e.ReadbackAll(driver.RAll)
		for i := range e.Snaps {
			e.SnapClose(i)
			e.SetItem("p", keys[i], []byte("after"), 7, false)
			e.AfterStep()
			e.ReadbackAll(driver.RAscVal | driver.RTotals)
		}
	}
	ctx.Add(e)
	return Result{Hash: gen.Mix(uint64(idx), 1010), NonTrivial: true, Viol: violOf(e),
		Sample: map[string]interface{}{"index": idx, "mode": "parallel readers on shared version", "snapshots": nSnaps, "goroutines": 8, "operations_each": perGoroutine}}
}

func panicOrError(s string) string {
	if len(s) > 0 && (containsStr(s, "panicked")) {
		return "panic"
	}
	return "wrong-result"
}

func containsStr(s, sub string) bool {
	for i := 0; i+len(sub) <= len(s); i++ {
		if s[i:i+len(sub)] == sub {
			return true
		}
	}
	return false
}
