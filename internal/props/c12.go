package props

import (
	"fmt"

	"verif/internal/driver"
	"verif/internal/gen"
)

// C12: creating, replacing and removing collections never loses or leaks items.

var mixC12 = Mix{Set: 24, Delete: 8, Get: 2, GetItem: 3, Visit: 2, Totals: 2, Flush: 7, Evict: 3, Reopen: 5,
	SetCollNew: 7, SetCollExisting: 8, RemoveColl: 7, GetColl: 5, Snapshot: 3, SnapRead: 4, SnapClose: 2, PinVisit: 1, ResumeVisit: 2}

func init() {
	register(&Prop{
		ID: "C12", Level: "exploration",
		Rule: "case = random history dense in SetCollection (new names and EXISTING names with an order-compatible comparator), RemoveCollection (incl. remove-then-recreate), replacement of an EMPTY collection's comparator by a differently parameterised member of the same closure family (which must really be installed), GetCollection, mutations through the handles returned while nodes are cached, Flush, re-open and snapshots alive across the changes, over 1-4 collections with plain and exotic names (empty, JSON escapes, multi-byte UTF-8, magic strings) and custom comparators. After every step: GetCollectionNames must be the sorted model name set, every current handle and snapshot is fully read back (with node-reuse forcing), the hook walk runs, and after each Flush (and at re-opens) a second store opened on a copy of the file must show exactly the flushed collections - collection changes are durable only at the next Flush. Concurrent cases: 2-3 goroutines, each the single mutator of its OWN two collections (the README's mutator-per-collection mode), create, replace, remove and fill them at the same time under the deterministic scheduler with yield points right before the collection-map compare-and-swap; afterwards GetCollectionNames must be exactly the union of what the owners hold, every handle must be the one its owner was given and hold its owner's items. Non-trivial = the history replaced a non-empty collection or removed-and-recreated a name, mutated afterwards, and re-opened or flushed; distinct = distinct op-trace hash.",
		Assumptions: []string{
			"a replacement comparator orders the existing keys identically (each name keeps one comparator for the whole case)",
			"collection names are valid UTF-8 (invalid UTF-8 names are a separately recorded input class, see known findings)",
			"the concurrent cases follow the README's mutator-per-collection mode: each goroutine creates, replaces, removes and mutates only its own collections",
		},
		NumCases: func(tier string) int { return pick(tier, 800, 30000) + pick(tier, 600, 20000) },
		Run:      runC12,
		Floor: func(tier string, st map[string]int64) string {
			for _, k := range []string{"op.SetCollection.existing", "op.RemoveCollection", "op.GetCollection", "op.Reopen", "reopen-compares", "c12.recreated", "c12.exotic-name-cases", "c12.custom-cmp-cases", "c12.concurrent-owner-executions", "c12.coll-cas-yields", "comparator-replaced-while-empty"} {
				if st[k] == 0 {
					return "no " + k + " observed"
				}
			}
			return ""
		},
	})
}

func runC12(ctx *Ctx, idx int) Result {
	seed := CaseSeed(ctx.Seed, "C12", idx)
	r := gen.New(seed)
	SeedGlobalRand(seed)
	if idx == 0 {
		return runC12InvalidUTF8(ctx)
	}
	if idx >= pick(ctx.Tier, 800, 30000) {
		return runC12Concurrent(ctx, idx, r)
	}
	cfg := driver.Config{MemOnly: r.P(15), ReadbackK: 1, Walk: true, Churn: r.P(50), ReopenCheck: true, Decode: true}
	hc := HistCfg{Steps: r.Range(25, 70), NColls: r.Range(1, 4), NKeys: r.Range(3, 10), KeyClass: gen.KeysShort, ValClass: gen.ValsShort,
		Prio: gen.PrioRegime(r.Intn(int(gen.NumPrioRegimes))), Mix: mixC12, MaxSnaps: 2, Exotic: r.P(40), CustomCmp: r.P(40)}
	if hc.CustomCmp {
		hc.KeyClass = gen.KeysDigits
		ctx.Stats["c12.custom-cmp-cases"]++
	}
	if hc.Exotic {
		ctx.Stats["c12.exotic-name-cases"]++
	}
	if !hc.CustomCmp && r.P(30) {
		hc.RotCmp = true // closures of ONE comparator family, replaced by another member while the collection is empty
		hc.Mix.Delete += 10
		hc.Mix.SetCollExisting += 6
	}
	if idx%4 == 1 {
		// SetCollection on another existing name from inside BeforeItemWrite, i.e. while a Flush has that
		// collection's version pinned and has not written it yet
		cfg.CB |= driver.CBReplaceOther
		cfg.MemOnly = false
		if hc.NColls < 2 {
			hc.NColls = 2
		}
		hc.Mix.Flush += 6
		ctx.Stats["c12.replace-during-flush-cases"]++
	}
	h := NewHist(r, cfg, hc, fmt.Sprintf("c12-%d", idx))
	removed := map[string]bool{}
	for i := 0; i < hc.Steps && !h.E.Failed(); i++ {
		before := map[string]bool{}
		for n := range h.E.M.Live.Colls {
			before[n] = true
		}
		h.Step()
		for n := range before {
			if _, ok := h.E.M.Live.Colls[n]; !ok {
				removed[n] = true
			}
		}
		lastOp := ""
		if n := len(h.E.Trace); n > 0 {
			lastOp = h.E.Trace[n-1]
		}
		if hasPrefix(lastOp, "Reopen") || hasPrefix(lastOp, "FlushRevert") {
			removed = map[string]bool{}
		}
		for n, c := range h.E.M.Live.Colls {
			if !before[n] && removed[n] && hasPrefix(lastOp, "SetCollection(") {
				// removed and re-created: must be empty (the read-back verifies the real one)
				if len(c.Items) != 0 {
					h.E.Failf("harness/model", "model of a re-created collection is not empty")
				}
				ctx.Stats["c12.recreated"]++
				h.Feat["recreated"] = true
			}
		}
		h.E.AfterStep()
	}
	h.E.ResumeAll()
	if !h.E.Failed() && !cfg.MemOnly && h.E.S != nil {
		h.E.Reopen(false)
		h.E.ReadbackAll(driver.RAll)
		h.E.AfterStep()
	}
	ctx.Add(h.E)
	nt := (h.Feat["setcoll-existing-nonempty"] || h.Feat["recreated"] || h.Feat["removecoll-nonempty"]) && (h.Feat["flush"] || h.Feat["reopen"])
	return Result{Hash: histHash(h.E), NonTrivial: nt, Viol: violOf(h.E),
		Sample: map[string]interface{}{"index": idx, "mem_only": cfg.MemOnly, "features": featList(h.Feat), "ops": tail(h.E.Trace, 40)}}
}

// runC12InvalidUTF8 is the scripted history of a recorded input class:
// collection names that are not valid UTF-8 do not survive the JSON root record.
func runC12InvalidUTF8(ctx *Ctx) Result {
	e := driver.NewEnv("c12-utf8", driver.Config{Decode: false})
	for _, n := range []string{"plain", "\xff", "\xfe"} {
		e.SetCollection(n, "")
		e.SetItem(n, []byte("k-"+n), []byte("v-"+n), 10, false)
	}
	e.Flush()
	e.AfterStep()
	if !e.Failed() {
		e.Reopen(true) // compares the names and then the contents with the model
		e.ReadbackAll(driver.RAll)
	}
	if e.Failed() {
		e.Viol.Sig = "C12/invalid-utf8-collection-name/" + e.Viol.Sig
		e.Viol.Detail = "collections named \"\\xff\" and \"\\xfe\" (not valid UTF-8) were flushed and the file re-opened: " + e.Viol.Detail
	}
	ctx.Add(e)
	return Result{Hash: 12, NonTrivial: true, Viol: violOf(e), Sample: map[string]interface{}{"index": 0, "scripted": "invalid-utf8-collection-names", "ops": e.Trace}}
}
