package props

import (
	"bytes"
	"fmt"
	"sort"
	"strings"
	"time"

	"github.com/cbehopkins/gkvlite"

	"verif/internal/gen"
	"verif/internal/model"
	"verif/internal/sched"
)

// runC12Concurrent: several goroutines, each the single mutator of its OWN
// collections (README: "a read-write goroutine per Collection"), create,
// replace and remove their collections at the same time.  The copy-on-write
// collection map must not lose or resurrect anybody's collection.  Runs under
// the deterministic scheduler; the yield points sit before the map CAS.
func runC12Concurrent(ctx *Ctx, idx int, r *gen.R) Result {
	nw := r.Range(2, 3)
	s, _ := gkvlite.NewStore(nil)
	type owner struct {
		names  []string
		colls  map[string]*gkvlite.Collection
		models map[string]*model.Coll
		ops    []string
	}
	owners := make([]*owner, nw)
	for i := range owners {
		owners[i] = &owner{names: []string{fmt.Sprintf("w%d-a", i), fmt.Sprintf("w%d-b", i)}, colls: map[string]*gkvlite.Collection{}, models: map[string]*model.Coll{}}
	}
	sc := sched.New(&sched.Random{Next: r.Intn, Stick: []int{0, 40, 70}[r.Intn(3)]})
	gkvlite.VerifSetPoint(func(name string) { sc.Yield(name) })
	defer gkvlite.VerifSetPoint(nil)
	var panics []string
	for i := range owners {
		o := owners[i]
		wr := r.Fork()
		steps := wr.Range(6, 16)
		sc.Add(func() {
			defer func() {
				if p := recover(); p != nil {
					panics = append(panics, fmt.Sprint(p))
				}
			}()
			n := 0
			for k := 0; k < steps; k++ {
				sc.Yield("op")
				name := o.names[wr.Intn(len(o.names))]
				switch x := wr.Intn(10); {
				case x < 4 || o.colls[name] == nil: // create, or replace an existing one
					_, had := o.models[name]
					o.colls[name] = s.SetCollection(name, nil)
					if !had {
						o.models[name] = model.NewColl(model.CmpBytes)
					}
					o.ops = append(o.ops, fmt.Sprintf("SetCollection(%s) existing=%v", name, had))
				case x < 6:
					s.RemoveCollection(name)
					delete(o.colls, name)
					delete(o.models, name)
					o.ops = append(o.ops, "RemoveCollection("+name+")")
				default:
					n++
					k, v := []byte(fmt.Sprintf("k%d", wr.Intn(5))), []byte(fmt.Sprintf("%s-%d", name, n))
					if err := o.colls[name].SetItem(&gkvlite.Item{Key: k, Val: v, Priority: int32(wr.Intn(1000))}); err != nil {
						panics = append(panics, "SetItem: "+err.Error())
					}
					o.models[name].Set(k, v, 0)
					o.ops = append(o.ops, fmt.Sprintf("Set(%s,%s)", name, k))
				}
			}
		})
	}
	done := make(chan struct{})
	go func() { sc.Run(); close(done) }()
	var v *Viol
	select {
	case <-done:
	case <-time.After(60 * time.Second):
		v = &Viol{Sig: "C12/concurrent-owners/hang", Detail: "the program did not finish"}
	}
	if v == nil && len(panics) > 0 {
		v = &Viol{Sig: "C12/concurrent-owners/panic-or-error", Detail: strings.Join(panics, "; ")}
	}
	if v == nil {
		var want []string
		for _, o := range owners {
			for n := range o.models {
				want = append(want, n)
			}
		}
		sort.Strings(want)
		got := s.GetCollectionNames()
		if strings.Join(got, ",") != strings.Join(want, ",") {
			v = &Viol{Sig: "C12/concurrent-owners/names", Detail: fmt.Sprintf("after %d goroutines created/replaced/removed their own collections concurrently GetCollectionNames = %q, expected %q", nw, got, want)}
		}
		for _, o := range owners {
			for n, m := range o.models {
				if v != nil {
					break
				}
				c := s.GetCollection(n)
				if c == nil || c != o.colls[n] {
					v = &Viol{Sig: "C12/concurrent-owners/handle", Detail: fmt.Sprintf("GetCollection(%q) is not the handle its owner got from SetCollection", n)}
					break
				}
				var keys []string
				okVals := true
				c.VisitItemsAscend(nil, true, func(i *gkvlite.Item) bool {
					keys = append(keys, string(i.Key))
					if w, ok := m.Get(i.Key); !ok || !bytes.Equal(w.Val, i.Val) {
						okVals = false
					}
					return true
				})
				if len(keys) != len(m.Items) || !okVals {
					v = &Viol{Sig: "C12/concurrent-owners/contents", Detail: fmt.Sprintf("collection %q holds keys %q, its owner's model has %d items", n, keys, len(m.Items))}
				}
			}
		}
	}
	if v != nil {
		for i, o := range owners {
			for _, op := range o.ops {
				v.Trace = append(v.Trace, fmt.Sprintf("W%d: %s", i, op))
			}
		}
	}
	ctx.Stats["c12.concurrent-owner-executions"]++
	ctx.Stats["c12.coll-cas-yields"] += int64(sc.PointHits["coll.cas"])
	return Result{Hash: sc.Hash(), NonTrivial: sc.PointHits["coll.cas"] > 1, Viol: v,
		Sample: map[string]interface{}{"index": idx, "mode": "concurrent collection owners", "workers": nw, "decisions": len(sc.Decisions)}}
}
