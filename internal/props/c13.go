package props

import (
	"fmt"

	"verif/internal/driver"
	"verif/internal/gen"
)

// C13: tree invariants - search order, exact aggregates, heap order, canonical shape.

func factorial(n int) int {
	f := 1
	for i := 2; i <= n; i++ {
		f *= i
	}
	return f
}

// nthPerm returns the k-th permutation of 0..n-1 (factorial number system).
func nthPerm(n, k int) []int {
	el := make([]int, n)
	for i := range el {
		el[i] = i
	}
	res := make([]int, 0, n)
	for i := n; i >= 1; i-- {
		f := factorial(i - 1)
		res = append(res, el[k/f])
		el = append(el[:k/f], el[k/f+1:]...)
		k %= f
	}
	return res
}

func c13MaxN(tier string) int { return pick(tier, 5, 6) }

func c13ExhaustiveCount(tier string) int {
	t := 0
	for n := 1; n <= c13MaxN(tier); n++ {
		t += factorial(n) * factorial(n)
	}
	return t
}

func init() {
	register(&Prop{
		ID: "C13", Level: "exploration",
		Rule:        "concurrent-load cases: 3-4 readers (lookups, visits) load a flushed and re-opened tree at the same time, with or without a mutator, under the deterministic scheduler (switches before AND after every file call); at quiescence every cached node that has a file location must equal the 52-byte record stored there (item, child locations, both aggregates) and the concurrent-history checks must hold. merge-copy cases: CopyTo into a file that already holds a store with the same collection names and interleaving keys; the result must be a search tree and heap with exact aggregates (hook walk + shape check of the returned store). exhaustive part: for every key-set size n <= 5 (quick) / 6 (thorough), EVERY insertion order x EVERY priority ranking (n!*n! histories; distinct priorities) is built step by step; then every single key is deleted and re-inserted, then the store is flushed, evicted, re-opened and mutated once more. After every step the verif-hook walk (cached nodes) completed with the independent decoder (persisted subtrees) recomputes every node's numNodes/numBytes bottom-up, checks strict in-order key order against the model, heap order and the depth of every item against the unique treap (Cartesian tree) of the current keys and priorities; the same shape oracle is evaluated through the public API only ((key,priority,depth) sequence of VisitItemsAscendEx), and every flushed image is validated node by node by the decoder. cold-delete cases (a quarter of the random part): runs of deletes in a flushed tree whose items were evicted by visits / EvictSomeItems / Len while its nodes stay cached, after churn in another collection has filled the package-global free lists with nodes of unrelated priorities; shape, heap, aggregates after every delete and after flush + re-open. Random part: collections up to 200 items with deletes, overwrites at higher/equal/lower priority (heap and shape clauses are switched off from the first lowering overwrite until the collection is empty, as the statement allows), tied priorities (shape clause off, heap clause on), custom comparators, value-length callbacks (neutral ones and a codec whose on-disk value length is twice len(Val), so that byte totals are defined by ItemValLength on every path), and flushes that fail on one write and are retried (the persisted tree must still be exact). Non-trivial = n >= 2 (exhaustive) or a history with overwrite and delete (random); distinct = distinct (n, order, ranking) or op-trace hash.",
		Assumptions: []string{"comparators are total orders", "walks run at quiescent points only (between API calls)"},
		Exhaustive:  func(string) bool { return false },
		NumCases: func(tier string) int {
			return c13ExhaustiveCount(tier) + pick(tier, 500, 20000) + pick(tier, 160, 4000) + pick(tier, 60, 1500)
		},
		Run: runC13,
		Floor: func(tier string, st map[string]int64) string {
			for _, k := range []string{"c13.exhaustive-cases", "walks", "shape.checks", "shape.canonical-depths-checked", "decodes", "shape.heap-off-checks", "shape.tied-priority-checks", "op.Set.overwrite-lower", "c13.length-changing-codec-cases", "failed-flushes", "c13.concurrent-load-cases", "c13.concurrent-load-nodes-compared", "c13.merge-copy-cases", "op.CopyTo.into-existing-store", "c13.cold-deletes"} {
				if st[k] == 0 {
					return "no " + k + " observed"
				}
			}
			return ""
		},
	})
}

func runC13(ctx *Ctx, idx int) Result {
	ex := c13ExhaustiveCount(ctx.Tier)
	if idx >= ex+pick(ctx.Tier, 500, 20000) {
		seed := CaseSeed(ctx.Seed, "C13", idx)
		r := gen.New(seed)
		SeedGlobalRand(seed)
		if idx >= ex+pick(ctx.Tier, 500, 20000)+pick(ctx.Tier, 160, 4000) {
			return runC13MergeCopy(ctx, idx, r)
		}
		return runC13Concurrent(ctx, idx, r)
	}
	if idx >= ex {
		if (idx-ex)%4 == 3 {
			return runC13ColdDeletes(ctx, idx)
		}
		return runC13Random(ctx, idx)
	}
	// decode idx -> (n, order, ranking)
	n, k := 1, idx
	for {
		c := factorial(n) * factorial(n)
		if k < c {
			break
		}
		k -= c
		n++
	}
	order := nthPerm(n, k/factorial(n))
	rank := nthPerm(n, k%factorial(n))
	seed := CaseSeed(ctx.Seed, "C13", idx)
	SeedGlobalRand(seed)
	cfg := driver.Config{Walk: true, Decode: true}
	e := driver.NewEnv(fmt.Sprintf("c13-%d", idx), cfg)
	e.SetCollection("t", "")
	keys := [][]byte{[]byte("a"), []byte("b"), []byte("c"), []byte("d"), []byte("e"), []byte("f")}
	prio := func(i int) int32 { return int32(rank[i]*1000 + 7) }
	step := func() {
		e.AfterStep()
		e.ShapeCheck("t")
	}
	for _, i := range order {
		e.SetItem("t", keys[i], []byte(fmt.Sprintf("v%d", i)), prio(i), false)
		step()
	}
	for i := 0; i < n && !e.Failed(); i++ {
		e.Delete("t", keys[i])
		step()
		e.SetItem("t", keys[i], []byte(fmt.Sprintf("w%d", i)), prio(i), false)
		step()
	}
	if !e.Failed() {
		e.Flush()
		step()
		e.Evict("t", 3)
		step()
		e.Reopen(idx%2 == 0)
		step()
		// mutate the re-opened (unloaded) tree: delete + re-insert one key, overwrite another at equal priority
		d := idx % n
		e.Delete("t", keys[d])
		step()
		e.SetItem("t", keys[d], []byte("x"), prio(d), false)
		step()
		e.SetItem("t", keys[(d+1)%n], []byte("y"), prio((d+1)%n), false)
		step()
		e.Flush()
		step()
	}
	ctx.Add(e)
	ctx.Stats["c13.exhaustive-cases"]++
	return Result{Hash: gen.Mix(uint64(n), uint64(k)), NonTrivial: n >= 2, Viol: violOf(e),
		Sample: map[string]interface{}{"index": idx, "n": n, "insertion_order": order, "priority_ranking": rank}}
}

var mixC13 = Mix{Set: 40, Delete: 14, GetItem: 2, Visit: 2, Totals: 2, Flush: 5, Evict: 5, Reopen: 3, FaultyFlush: 1, FaultyMut: 1}

func runC13Random(ctx *Ctx, idx int) Result {
	seed := CaseSeed(ctx.Seed, "C13", idx)
	r := gen.New(seed)
	SeedGlobalRand(seed)
	cfg := driver.Config{MemOnly: r.P(20), Walk: true, Decode: true}
	switch r.Intn(8) {
	case 0, 1:
		cfg.CB = driver.CBVal
	case 2, 3:
		// a value codec whose on-disk length differs from len(Val): the aggregates
		// must follow ItemValLength on every path
		cfg.CB = driver.CBValDouble
		ctx.Stats["c13.length-changing-codec-cases"]++
	}
	reg := gen.PrioRegime(r.Intn(int(gen.NumPrioRegimes)))
	hc := HistCfg{Steps: r.Range(40, 400), NColls: 1, NKeys: r.Range(5, 200), KeyClass: []gen.KeyClass{gen.KeysShort, gen.KeysPrefix, gen.KeysDigits}[r.Intn(3)],
		ValClass: gen.ValsMixed, Prio: reg, Mix: mixC13, CustomCmp: r.P(30)}
	if hc.CustomCmp {
		hc.KeyClass = gen.KeysDigits
	} else if r.P(15) {
		// long non-periodic keys: a key mangled on re-load breaks the search order
		hc.KeyClass, hc.NKeys, hc.Steps = gen.KeysLong, r.Range(5, 16), r.Range(40, 120)
		ctx.Stats["c13.long-key-cases"]++
	}
	h := NewHist(r, cfg, hc, fmt.Sprintf("c13r-%d", idx))
	e := h.E
	for i := 0; i < hc.Steps && !e.Failed(); i++ {
		h.Step()
		e.AfterStep()
		if i%7 == 0 {
			for _, n := range e.M.Live.Names() {
				e.ShapeCheck(n)
			}
		}
	}
	for _, n := range e.M.Live.Names() {
		e.ShapeCheck(n)
		if c := e.M.Live.Colls[n]; c.HeapOff {
			ctx.Stats["c13.random-heapoff-cases"]++
		} else if _, ok := c.Depths(); !ok {
			ctx.Stats["c13.random-tied-cases"]++
		}
	}
	ctx.Add(e)
	return Result{Hash: histHash(e), NonTrivial: h.Feat["overwrite"] && h.Feat["delete"], Viol: violOf(e),
		Sample: map[string]interface{}{"index": idx, "prio_regime": int(reg), "features": featList(h.Feat), "ops": tail(e.Trace, 30)}}
}

// runC13ColdDeletes: deletes (joins) in a tree whose items are persisted and evicted while its nodes stay
// cached, with the package-global free lists full of nodes that held other items before: every join has to
// rank subtree roots whose items are not in memory, and builds its new nodes out of recycled ones.
func runC13ColdDeletes(ctx *Ctx, idx int) Result {
	seed := CaseSeed(ctx.Seed, "C13", idx)
	r := gen.New(seed)
	SeedGlobalRand(seed)
	cfg := driver.Config{Walk: true, Decode: true}
	if r.P(25) {
		cfg.CB = driver.CBVal
	}
	e := driver.NewEnv(fmt.Sprintf("c13c-%d", idx), cfg)
	e.SetCollection("t", "")
	e.SetCollection("u", "")
	n := r.Range(5, 40)
	prios := r.Perm(n)
	keys := make([][]byte, n)
	for i := range keys {
		keys[i] = []byte(fmt.Sprintf("k%03d", i*3))
	}
	for _, i := range r.Perm(n) {
		e.SetItem("t", keys[i], []byte(fmt.Sprintf("v%d", i)), int32(prios[i]*10+5), false)
	}
	e.Flush()
	step := func() {
		e.AfterStep()
		e.ShapeCheck("t")
	}
	step()
	alive := map[int]bool{}
	for i := 0; i < n; i++ {
		alive[i] = true
	}
	rounds := r.Range(2, 6)
	for round := 0; round < rounds && !e.Failed(); round++ {
		// make the items cold while the nodes stay cached
		switch r.Intn(3) {
		case 0:
			e.Visit(-1, "t", driver.VisitKind(r.Intn(2)), nil, r.Bool(), -1)
			e.Visit(-1, "t", driver.VAsc, []byte{}, false, -1)
		case 1:
			e.Evict("t", r.Range(5, 40))
		case 2:
			e.Len(-1, "t")
		}
		// churn: the free list gets nodes whose previous items had unrelated priorities
		m := r.Range(3, 25)
		for j := 0; j < m; j++ {
			e.SetItem("u", []byte(fmt.Sprintf("churn%02d", j)), []byte("c"), int32(r.Intn(3)+1), false)
		}
		for j := 0; j < m; j++ {
			e.Delete("u", []byte(fmt.Sprintf("churn%02d", j)))
		}
		// a run of deletes in the cold tree
		for d := r.Range(1, 4); d > 0 && len(alive) > 1 && !e.Failed(); d-- {
			var cand []int
			for i := range keys {
				if alive[i] {
					cand = append(cand, i)
				}
			}
			i := cand[r.Intn(len(cand))]
			e.Delete("t", keys[i])
			delete(alive, i)
			ctx.Stats["c13.cold-deletes"]++
			step()
		}
		if r.P(40) && !e.Failed() {
			e.Flush()
			step()
		}
	}
	if !e.Failed() {
		e.Flush()
		step()
		e.Reopen(r.Bool())
		step()
	}
	ctx.Add(e)
	ctx.Stats["c13.cold-delete-cases"]++
	return Result{Hash: histHash(e), NonTrivial: n >= 5, Viol: violOf(e),
		Sample: map[string]interface{}{"index": idx, "kind": "cold-deletes", "n": n, "ops": tail(e.Trace, 30)}}
}
