package props

import (
	"fmt"
	"strings"
	"time"

	"github.com/cbehopkins/gkvlite"

	"verif/internal/conc"
	"verif/internal/driver"
	"verif/internal/gen"
	"verif/internal/model"
	"verif/internal/sched"
	"verif/internal/vfile"
)

// runC13Concurrent: the in-memory tree after several readers loaded it from a cold file at the same
// time (next to a mutator): at quiescence every cached node that has a file location must be a
// faithful copy of the record stored there, and the usual concurrent-history checks must hold.
func runC13Concurrent(ctx *Ctx, idx int, r *gen.R) Result {
	p := c05Program(r, false, 0)
	p.MemOnly = false
	p.Cold = 2 // flushed and re-opened: nothing is loaded when the workers start
	p.Flusher = nil
	if idx%2 == 0 {
		p.Mutator = nil // readers only
	} else if len(p.Mutator) > 8 {
		p.Mutator = p.Mutator[:8]
	}
	// a tree that is worth loading: more keys than the default programs have
	for _, n := range p.Names {
		for i := 0; i < 12; i++ {
			p.Initial[n] = append(p.Initial[n], model.KV{Key: []byte(fmt.Sprintf("x%02d", i)), Val: []byte(fmt.Sprintf("init-%s-x%02d", n, i)), Prio: int32(r.Intn(100000))})
		}
	}
	for len(p.Readers) < 3 {
		p.Readers = append(p.Readers, nil)
	}
	for i := range p.Readers {
		for j := 0; j < 4; j++ {
			n := p.Names[r.Intn(len(p.Names))]
			p.Readers[i] = append(p.Readers[i], conc.Step{K: conc.RGet, Coll: n, Key: []byte(fmt.Sprintf("x%02d", r.Intn(12))), Stop: -1})
		}
	}
	s := sched.New(&sched.Random{Next: r.Intn, Stick: []int{0, 20, 50}[r.Intn(3)]})
	nodes := 0
	mode := conc.Mode{Sched: s, AtQuiescence: func(colls map[string]*gkvlite.Collection, f *vfile.File) []string {
		var res []string
		img := f.Bytes()
		for _, n := range p.Names {
			gkvlite.VerifWalk(colls[n], func(gkvlite.VerifNode) { nodes++ })
			if d := driver.CachedNodesMatchFile(colls[n], img); d != "" {
				res = append(res, "collection "+n+": "+d)
			}
		}
		return res
	}}
	h, _ := conc.Run(p, mode)
	fs, st, _ := conc.Check(p, h, 30*time.Second)
	ctx.Stats["c13.concurrent-load-cases"]++
	ctx.Stats["c13.concurrent-load-nodes-compared"] += int64(nodes)
	ctx.Stats["c13.concurrent-load-reader-ops"] += int64(st.ReaderOps)
	var v *Viol
	if len(h.Structural) > 0 {
		v = &Viol{Sig: "C13/concurrent-load/cached-node-differs-from-its-record", Detail: "[readers loading a cold tree at the same time, deterministic schedule] " + h.Structural[0]}
	} else if len(fs) > 0 {
		v = &Viol{Sig: "C13/concurrent-load/" + strings.TrimPrefix(fs[0].Sig, "C05/"), Detail: "[readers loading a cold tree at the same time, deterministic schedule] " + fs[0].Detail}
	}
	return Result{Hash: s.Hash(), NonTrivial: nodes > 0, Viol: v,
		Sample: map[string]interface{}{"index": idx, "mode": "concurrent load of a cold tree", "readers": len(p.Readers), "cached_nodes_compared": nodes, "decisions": len(s.Decisions)}}
}

// runC13MergeCopy: CopyTo into a file that already holds a store with collections of the same
// names and interleaving keys: the result (source set over the existing contents) must again be a
// search tree and heap with exact aggregates, in memory and - with flushEvery > 0 - on the file.
func runC13MergeCopy(ctx *Ctx, idx int, r *gen.R) Result {
	pre := driver.NewEnv(fmt.Sprintf("c13pre-%d", idx), driver.Config{})
	src := driver.NewEnv(fmt.Sprintf("c13src-%d", idx), driver.Config{Walk: true, MemOnly: idx%3 == 0})
	keys := gen.Keys(r, 24, gen.KeysDigits)
	pg := gen.NewPrioGen(gen.PrioRegime(r.Intn(int(gen.NumPrioRegimes))))
	names := []string{"m", "n"}[:r.Range(1, 2)]
	for _, n := range names {
		pre.SetCollection(n, "")
		src.SetCollection(n, "")
		for i, k := 0, r.Range(1, 14); i < k; i++ {
			pre.SetItem(n, keys[r.Intn(len(keys))], []byte(fmt.Sprintf("old%d", i)), pg.Next(r), false)
		}
		for i, k := 0, r.Range(1, 14); i < k; i++ {
			src.SetItem(n, keys[r.Intn(len(keys))], []byte(fmt.Sprintf("new%d", i)), pg.Next(r), false)
		}
	}
	if r.Bool() {
		pre.SetCollection("only-there", "")
		pre.SetItem("only-there", []byte("k"), []byte("v"), 3, false)
	}
	pre.Flush()
	if !src.Cfg.MemOnly && r.Bool() {
		src.Flush()
		src.Evict(names[0], 3)
	}
	if pre.Failed() {
		return Result{Viol: violOf(pre)}
	}
	src.DstPre = &driver.DstPre{Img: pre.F.Bytes(), State: pre.M.Durable()}
	fe := []int{-1, 0, 1, 3, 50}[r.Intn(5)]
	dst := src.CopyTo(-1, fe)
	_ = dst
	src.AfterStep()
	ctx.Stats["c13.merge-copy-cases"]++
	ctx.Add(src)
	return Result{Hash: gen.Mix(uint64(idx), 1313), NonTrivial: true, Viol: violOf(src),
		Sample: map[string]interface{}{"index": idx, "mode": "CopyTo into an existing store", "flush_every": fe, "ops": tail(src.Trace, 12)}}
}
