package props

import (
	"bytes"
	"fmt"
	"sort"
	"strings"
	"time"

	"verif/internal/conc"
	"verif/internal/decoder"
	"verif/internal/driver"
	"verif/internal/gen"
	"verif/internal/model"
	"verif/internal/sched"
)

// C14: files conform to the v4 layout and decode independently to the flushed state.

var mixC14 = Mix{Set: 34, Delete: 10, GetItem: 2, Visit: 1, Flush: 14, Evict: 4, Reopen: 4, SetCollNew: 3, RemoveColl: 2, CopyTo: 2, FlushRevert: 1, CollWrite: 1, FaultyFlush: 2}

func init() {
	register(&Prop{
		ID: "C14", Level: "exploration",
		Rule:        "writer side: random histories (key lengths 1..65535 incl. the boundaries 255/256/65535, value lengths 0..4 KB plus a 1 MB value in some cases, 0-4 collections with plain and exotic names, magic-laden data, all callback configurations) - after EVERY successful Flush and for every CopyTo destination the file image is parsed by the independent decoder (standard library only, no gkvlite code): root record framing (doubled markers, version 4, both length fields, offset field, JSON map of root locations), every reachable node record (52 bytes, inside the data area, written after its item and both children) and item record (self-delimiting: location length = header total = 16+key+value), exact aggregates, key order; the decoded state must equal the model's flushed state, and a complete root record must end exactly where the last write of every Flush ended. Reader side: files produced by the harness's own independent ENCODER from random states (1-3 appended flushes, different tree shapes than gkvlite would build) must be opened by gkvlite and read back to exactly that state, then mutated, flushed and decoded again. Concurrent cases: a flusher runs next to a mutator (and readers) under the deterministic yield-point scheduler; the image after every concurrent Flush must decode and every collection in it must have exactly the contents of a version that was current during that Flush. Non-trivial = image with >= 2 flushes and >= 1 non-empty collection (writer) / any encoder file (reader); distinct = distinct image hash.",
		Assumptions: []string{"collection names are valid UTF-8", "the decoder's reading of the format description (package comment of internal/decoder) is the specification"},
		NumCases:    func(tier string) int { return pick(tier, 600, 20000) + pick(tier, 200, 5000) + pick(tier, 400, 12000) },
		Run:         runC14,
		Floor: func(tier string, st map[string]int64) string {
			for _, k := range []string{"decodes", "c14.encoder-files-read", "c14.copyto-images-decoded", "c14.big-value-cases", "c14.max-key-cases", "c14.empty-collection-images", "c14.root-last-checked", "c14.concurrent-flush-images", "c14.length-changing-codec-cases", "c14.copyto-into-existing-store", "c14.custom-comparator-cases", "c14.reentrant-images-decoded"} {
				if st[k] == 0 {
					return "no " + k + " observed"
				}
			}
			return ""
		},
	})
}

func runC14(ctx *Ctx, idx int) Result {
	seed := CaseSeed(ctx.Seed, "C14", idx)
	r := gen.New(seed)
	SeedGlobalRand(seed)
	nw := pick(ctx.Tier, 600, 20000)
	if idx >= nw+pick(ctx.Tier, 200, 5000) {
		return runC14Concurrent(ctx, idx, r)
	}
	if idx >= nw {
		return runC14Encoder(ctx, idx, r)
	}
	if idx%50 == 49 {
		// the store is used from inside BeforeItemWrite (an audit collection written / left dirty in the
		// middle of a Flush): the file must still be a well-formed v4 file holding what was set
		res := runReentrantWrites(ctx, idx, r, 1+idx/50%2, true)
		ctx.Stats["c14.reentrant-callback-cases"]++
		return res
	}
	cfg := driver.Config{Decode: true, KeepLog: true, CB: driver.CBMask(r.Intn(64)) &^ (driver.CBAlloc | driver.CBRef)}
	hc := HistCfg{Steps: r.Range(20, 70), NColls: r.Range(0, 4), NKeys: r.Range(3, 12), KeyClass: gen.KeyClass(r.Intn(int(gen.NumKeyClasses))),
		ValClass: []gen.ValClass{gen.ValsMixed, gen.ValsMagic, gen.ValsShort}[r.Intn(3)], Prio: gen.PrioRegime(r.Intn(int(gen.NumPrioRegimes))), Mix: mixC14, Exotic: r.P(50)}
	if hc.KeyClass == gen.KeysMixed || hc.KeyClass == gen.KeysLong {
		hc.NKeys = 5
		ctx.Stats["c14.max-key-cases"]++
	}
	if idx%4 == 1 {
		// every other collection is ordered by an application comparator (reverse / length-first): key order in
		// the file, and in every CopyTo destination, is the collection's own
		hc.CustomCmp = true
		ctx.Stats["c14.custom-comparator-cases"]++
	}
	if idx%6 == 4 {
		// a value codec whose on-disk form is twice as long as Item.Val: record lengths, item locations
		// and aggregates all follow ItemValLength
		cfg.CB = driver.CBValDouble
		ctx.Stats["c14.length-changing-codec-cases"]++
	}
	h := NewHist(r, cfg, hc, fmt.Sprintf("c14-%d", idx))
	e := h.E
	if hc.NColls == 0 {
		e.Flush() // a store without any collection
		ctx.Stats["c14.empty-collection-images"]++
	}
	big := r.P(4)
	flushes := 0
	for i := 0; i < hc.Steps && !e.Failed(); i++ {
		nf := int64(len(e.M.Flushes)) // (successful flushes only)
		ncp := e.Stats["op.CopyTo"]
		if big && i == hc.Steps/2 {
			if n := h.liveName(); n != "" {
				e.SetItem(n, []byte("big-value"), r.Bytes(1<<20), h.Prios.Next(r), false)
				ctx.Stats["c14.big-value-cases"]++
			}
		}
		h.Step()
		if int64(len(e.M.Flushes)) > nf && !e.Failed() {
			flushes++
			// the last write of the Flush is exactly one root record
			wl := e.F.WriteLog()
			if len(wl) > 0 {
				last := wl[len(wl)-1]
				if last.Tag == "Flush" {
					if !decoder.RootEndsAt(e.F.Bytes(), last.Off+int64(last.Len)) {
						e.Failf("C14/flush-does-not-end-with-a-root-record", "no complete root record ends where the last write of a successful Flush ended (off %d, len %d)", last.Off, last.Len)
					}
					ctx.Stats["c14.root-last-checked"]++
				}
			}
			for _, c := range e.M.Durable().Colls {
				if len(c.Items) == 0 {
					ctx.Stats["c14.empty-collection-images"]++
				}
			}
		}
		if e.Stats["op.CopyTo"] > ncp && !e.Failed() && e.LastCopyDst != nil && e.LastCopyFlushEvery > 0 {
			b := e.LastCopyDst.Bytes()
			img, err := decoder.Decode(b, int64(len(b)), driver.CmpLookup(e.M.Live))
			if err != nil {
				e.Failf("C14/copyto-destination/structural", "independent decoder rejects the CopyTo destination: %v", err)
			} else if d := driver.CompareImage(img, e.M.Live); d != "" {
				e.Failf("C14/copyto-destination/state-mismatch", "CopyTo destination decodes to a different state: %s", d)
			}
			ctx.Stats["c14.copyto-images-decoded"]++
		}
		e.AfterStep()
	}
	if idx%5 == 3 && !e.Failed() && e.S != nil && e.OpenPins() == 0 {
		// CopyTo into a file that already holds a LARGER store (same collection names among others):
		// the file it leaves must decode, from its last root record, to that store with the source's
		// collections set over it
		pre := driver.NewEnvCmps(fmt.Sprintf("c14pre-%d", idx), driver.Config{}, e.Cmps)
		names := append(e.M.Live.Names(), "only-in-the-destination")
		for round := 0; round < 3 && !pre.Failed(); round++ {
			for _, n := range names {
				cmp := model.CmpBytes
				if mc, ok := e.M.Live.Colls[n]; ok {
					cmp = mc.Cmp
				}
				if round == 0 {
					pre.SetCollection(n, cmp)
				}
				for i := 0; i < 12; i++ {
					pre.SetItem(n, []byte(fmt.Sprintf("%04d", r.Intn(60))), r.Bytes(r.Range(200, 600)), h.Prios.Next(r), false)
				}
			}
			pre.Flush()
		}
		if !pre.Failed() {
			e.DstPre = &driver.DstPre{Img: pre.F.Bytes(), State: pre.M.Durable()}
			fe := []int{1, 3, 50}[r.Intn(3)]
			if dst := e.CopyTo(-1, fe); dst != nil && !e.Failed() {
				b := dst.Bytes()
				img, err := decoder.Decode(b, int64(len(b)), driver.CmpLookup(e.LastCopyModel))
				if err != nil {
					e.Failf("C14/copyto-into-existing-store/structural", "independent decoder rejects the file CopyTo left (the destination held a larger store before): %v", err)
				} else if d := driver.CompareImage(img, e.LastCopyModel); d != "" {
					e.Failf("C14/copyto-into-existing-store/state-mismatch", "the file CopyTo left (the destination held a larger store before) decodes to a different state: %s", d)
				}
				ctx.Stats["c14.copyto-into-existing-store"]++
			}
		}
	}
	ctx.Add(e)
	var hash uint64 = uint64(idx)
	if e.F != nil {
		hash = gen.MixS(string(e.F.Bytes()))
	}
	return Result{Hash: hash, NonTrivial: flushes >= 2 && len(e.M.Durable().Colls) > 0, Viol: violOf(e),
		Sample: map[string]interface{}{"index": idx, "flushes": flushes, "callbacks_mask": int(cfg.CB), "file_bytes": e.F.Size(), "ops": tail(e.Trace, 30)}}
}

// runC14Encoder: reader-side conformance against the independent encoder.
func runC14Encoder(ctx *Ctx, idx int, r *gen.R) Result {
	nFlush := r.Range(1, 3)
	names := gen.CollNames(r, r.Range(0, 3), r.P(50))
	var img []byte
	st := model.NewState()
	cmps := map[string]model.Cmp{}
	for f := 0; f < nFlush; f++ {
		st = model.NewState()
		var colls []decoder.EncColl
		for _, n := range names {
			c := model.NewColl(model.CmpBytes)
			cmps[n] = model.CmpBytes
			keys := gen.Keys(r, r.Range(0, 14), gen.KeyClass(r.Intn(int(gen.NumKeyClasses)-1)))
			pg := gen.NewPrioGen(gen.PrioRegime(r.Intn(int(gen.NumPrioRegimes))))
			for i, k := range keys {
				c.Set(k, gen.Val(r, gen.ValsMixed, fmt.Sprintf("e%d-%d", f, i), nil), pg.Next(r))
			}
			c.HeapOff = false
			st.Colls[n] = c
			var items []decoder.EncItem
			for _, kv := range c.Sorted() {
				items = append(items, decoder.EncItem{Key: kv.Key, Val: kv.Val, Prio: kv.Prio})
			}
			colls = append(colls, decoder.EncColl{Name: n, Items: items})
		}
		sort.Slice(colls, func(i, j int) bool { return colls[i].Name < colls[j].Name })
		img = decoder.Encode(img, colls)
	}
	// sanity: the decoder reads what the encoder wrote (both are ours)
	if di, err := decoder.Decode(img, int64(len(img)), nil); err != nil || driver.CompareImage(di, st) != "" {
		return Result{Hash: uint64(idx), Inconclusive: fmt.Sprintf("encoder/decoder self-check failed: %v", err)}
	}
	e := driver.NewEnvOnImage(fmt.Sprintf("c14e-%d", idx), driver.Config{Walk: true, Decode: true, ScanBound: true}, cmps, img, st, true)
	if !e.Failed() {
		e.ReadbackAll(driver.RAll | driver.RDescVal)
		e.AfterStep()
	}
	if e.Failed() {
		e.Viol.Sig = "C14/reader-side/" + e.Viol.Sig
	} else {
		ctx.Stats["c14.encoder-files-read"]++
		// continue on the foreign file: mutate, flush, decode
		for _, n := range e.M.Live.Names() {
			e.SetItem(n, []byte("added"), []byte("after-foreign-encoder"), 5, false)
			if s := e.M.Live.Colls[n].Sorted(); len(s) > 1 {
				e.Delete(n, s[0].Key)
			}
		}
		e.Flush()
		e.AfterStep()
		if !e.Failed() && !bytes.HasPrefix(e.F.Bytes(), img) {
			e.Failf("C09/foreign-file-prefix-modified", "flushing on top of an encoder-produced file modified its existing bytes")
		}
	}
	ctx.Add(e)
	return Result{Hash: gen.MixS(string(img)), NonTrivial: true, Viol: violOf(e),
		Sample: map[string]interface{}{"index": idx, "encoder_flushes": nFlush, "collections": names, "file_bytes": len(img)}}
}

// runC14Concurrent: files written by a Flush that runs next to the mutator.
func runC14Concurrent(ctx *Ctx, idx int, r *gen.R) Result {
	p := c05Program(r, false, 0)
	p.MemOnly = false
	for len(p.Flusher) < 3 {
		p.Flusher = append(p.Flusher, conc.Step{K: conc.FFlush})
	}
	if idx%3 == 0 {
		// "over all key/value sizes": values of 64 KiB and more set while the flusher is writing
		for i := range p.Mutator {
			if st := &p.Mutator[i]; st.K == conc.MSet && st.Big == 0 && r.P(25) {
				st.Big = r.Range(65536, 70000)
				p.BigVals++
			}
		}
	}
	ctx.Stats["c14.concurrent-big-values"] += int64(p.BigVals)
	s := sched.New(&sched.Random{Next: r.Intn, Stick: []int{0, 30, 60}[r.Intn(3)]})
	h, _ := conc.Run(p, conc.Mode{Sched: s})
	fs, _, _ := conc.Check(p, h, 30*time.Second)
	ctx.Stats["c14.concurrent-flush-images"] += int64(len(h.Flushes))
	var v *Viol
	for _, f := range fs {
		if strings.HasPrefix(f.Sig, "C05/flush/") || strings.HasPrefix(f.Sig, "C05/panic") || strings.HasPrefix(f.Sig, "C05/error-returned/flusher") {
			v = &Viol{Sig: "C14/concurrent-flush/" + strings.TrimPrefix(f.Sig, "C05/"), Detail: "[flusher next to the mutator, deterministic schedule] " + f.Detail}
			break
		}
	}
	return Result{Hash: s.Hash(), NonTrivial: len(h.Flushes) > 0, Viol: v,
		Sample: map[string]interface{}{"index": idx, "mode": "concurrent flush", "flushes": len(h.Flushes), "decisions": len(s.Decisions)}}
}
