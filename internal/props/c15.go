package props

import (
	"fmt"
	"os"
	"strings"

	"github.com/cbehopkins/gkvlite"

	"verif/internal/conc"
	"verif/internal/driver"
	"verif/internal/gen"
	"verif/internal/sched"
)

// C15: item reference counting via callbacks is balanced and never premature.

var mixC15 = Mix{Set: 24, Delete: 9, Get: 3, GetItem: 5, Exist: 2, MinMax: 4, Totals: 1, Visit: 6, Iter: 2, Len: 1,
	Flush: 7, Evict: 7, Reopen: 3, Snapshot: 4, SnapRead: 6, SnapClose: 3, SnapOfSnap: 1,
	SetCollNew: 2, SetCollExisting: 2, RemoveColl: 2, PinVisit: 1, ResumeVisit: 2, VisitEvict: 4, CopyTo: 2, FlushRevert: 2}

func init() {
	register(&Prop{
		ID: "C15", Level: "exploration",
		Rule: "case = random history (mutations incl. overwrites and deletes, lookups, all visit kinds and iterators, Len, EvictSomeItems, Flush, re-open, snapshots, SetCollection/RemoveCollection, suspended readers, visits whose callback evicts) over 1-3 collections with ItemAlloc/ItemAddRef/ItemDecRef installed and wired to a mutex-protected monitor that follows the documented protocol (allocated items start at 1; the application drops its own reference after SetItem and releases what lookups return). Checked online: no DecRef takes a count below zero; every item returned by GetItem/MinItem/MaxItem or passed to a visitor has a positive count; after every step every item cached in a node reachable from an open handle (hook walk) has a positive count. Concurrent cases: 2-4 readers (lookups, visits, Min/Max in both value modes) next to a mutator that only evicts, on a cold file under the deterministic yield-point scheduler (switches at every file call, so two readers load the same uncached item at once and one loses the cache CAS); the store is then closed and every count must be zero. Histories include FlushRevert (collections that vanish with the reverted flush must release their items too). One scripted case (the last of its child process) runs after the process-wide node free list has been grown beyond 2^16 nodes (thorough: 2^17). End of life: the snapshots and the store are closed in a seed-chosen order (stores abandoned by a re-open are closed too) and every count must be zero. Non-trivial = the history evicted or re-read items, deleted or overwrote some, and closed at least one snapshot or re-opened; distinct = distinct op-trace hash.",
		Assumptions: []string{
			"the application follows the documented protocol: it releases each item returned by GetItem/MinItem/MaxItem exactly once and does not retain visitor items",
			"items created by Collection.Set() (not through ItemAlloc) start at count 0 from the monitor's point of view",
		},
		NumCases: func(tier string) int { return pick(tier, 800, 30000) + pick(tier, 600, 20000) },
		Run:      runC15,
		Floor: func(tier string, st map[string]int64) string {
			for _, k := range []string{"cb.ItemAlloc", "cb.ItemAddRef", "cb.ItemDecRef", "evicted", "op.SnapClose", "op.Reopen", "c15.end-of-life-balanced", "walks", "c15.concurrent-executions", "c15.big-free-list-cases", "op.FlushRevert"} {
				if st[k] == 0 {
					return "no " + k + " observed"
				}
			}
			return ""
		},
	})
}

func runC15(ctx *Ctx, idx int) Result {
	seed := CaseSeed(ctx.Seed, "C15", idx)
	r := gen.New(seed)
	SeedGlobalRand(seed)
	if idx == 0 {
		return runC15StaleRead(ctx)
	}
	if idx == pick(ctx.Tier, 800, 30000)+pick(ctx.Tier, 600, 20000)-1 {
		// (the last case of its child process: the hook walks of every later case would have to copy the grown free list)
		return runC15BigFreeList(ctx, idx, r)
	}
	if idx >= pick(ctx.Tier, 800, 30000) {
		return runC15Concurrent(ctx, idx, r)
	}
	cfg := driver.Config{MemOnly: r.P(20), ReadbackK: []int{0, 1, 4}[r.Intn(3)], Walk: true, RefMon: true}
	if idx%2 == 1 {
		// recycling allocator: an item whose count is back to zero is wiped, so a release that comes
		// too early also shows as a wrong result, not only in the counters
		cfg.Recycle = true
		ctx.Stats["c15.recycling-allocator-cases"]++
	}
	hc := HistCfg{Steps: r.Range(20, 70), NColls: r.Range(1, 3), NKeys: r.Range(4, 14), KeyClass: gen.KeysShort, ValClass: gen.ValsMixed,
		Prio: gen.PrioRegime(r.Intn(int(gen.NumPrioRegimes))), Mix: mixC15, MaxSnaps: 3}
	if v := os.Getenv("VERIF_DEBUG_STEPS"); v != "" { // debugging aid: truncate the history
		fmt.Sscan(v, &hc.Steps)
	}
	h := NewHist(r, cfg, hc, fmt.Sprintf("c15-%d", idx))
	h.Run()
	e := h.E

	if !e.Failed() {
		// end of life: close snapshots and the store in a seed-chosen order
		if r.Bool() {
			for i := range e.Snaps {
				e.SnapClose(i)
			}
			e.Close()
		} else {
			e.CloseOriginalOnly()
			for i := len(e.Snaps) - 1; i >= 0; i-- {
				e.SnapClose(i)
			}
			e.Close()
		}
		e.AfterStep()
		if !e.Failed() {
			if items, refs, ex := e.RC.Outstanding(); items != 0 {
				e.Failf("C15/end-of-life-imbalance/"+strings.Join(e.RC.LeakKinds(), ","), "after closing the store and all snapshots %d item(s) still carry %d reference(s) gkvlite took (e.g. %s)", items, refs, ex)
			} else {
				ctx.Stats["c15.end-of-life-balanced"]++
			}
		}
	}
	ctx.Stats["c15.items-tracked"] += int64(e.RC.Tracked())
	ctx.Add(e)
	nt := (h.Feat["evict"] || h.Feat["reopen"]) && (h.Feat["overwrite"] || h.Feat["delete"]) && (h.Feat["snapclose"] || h.Feat["reopen"])
	return Result{Hash: histHash(e), NonTrivial: nt, Viol: violOf(e),
		Sample: map[string]interface{}{"index": idx, "mem_only": cfg.MemOnly, "features": featList(h.Feat), "ops": tail(e.Trace, 40)}}
}

// runC15StaleRead is the scripted history of the recorded known finding:
// items loaded through a snapshot after the original moved on.
func runC15StaleRead(ctx *Ctx) Result {
	e := driver.NewEnv("c15-stale", driver.Config{RefMon: true, Walk: true})
	e.SetCollection("a", "")
	keys := []string{"k1", "k2", "k3", "k4", "k5"}
	for i, k := range keys {
		e.SetItem("a", []byte(k), []byte("v-"+k), int32(10*(i+1)), false)
	}
	e.Flush()
	e.Reopen(true)
	e.Snapshot(-1)
	e.SetItem("a", []byte("k3"), []byte("new"), 1000, false) // the original moves on
	for _, k := range keys {
		e.GetItem(0, "a", []byte(k), true) // loads through the superseded version
	}
	e.AfterStep()
	e.SnapClose(0)
	e.Close()
	e.AfterStep()
	if !e.Failed() {
		if items, refs, ex := e.RC.Outstanding(); items != 0 {
			e.Failf("C15/end-of-life-imbalance/"+strings.Join(e.RC.LeakKinds(), ","), "after closing the store and all snapshots %d item(s) still carry %d reference(s) gkvlite took (e.g. %s)", items, refs, ex)
		} else {
			ctx.Stats["c15.end-of-life-balanced"]++
		}
	}
	ctx.Add(e)
	return Result{Hash: 15, NonTrivial: true, Viol: violOf(e), Sample: map[string]interface{}{"index": 0, "scripted": "stale-version-read", "ops": e.Trace}}
}

// runC15BigFreeList: the reference protocol after the package-global node free list has grown large
// (beyond 2^16 / 2^17 nodes): a memory-only store of that many items is built and closed first, then a
// file-backed store under the reference monitor is filled, flushed, re-opened, read completely and closed.
func runC15BigFreeList(ctx *Ctx, idx int, r *gen.R) Result {
	fill := pick(ctx.Tier, 70000, 140000)
	if have := len(gkvlite.VerifFreeNodes()); have < fill {
		ms, _ := gkvlite.NewStore(nil)
		c := ms.SetCollection("filler", nil)
		for i := 0; i < fill-have+500; i++ {
			c.SetItem(&gkvlite.Item{Key: []byte(fmt.Sprintf("f%07d", i)), Val: []byte{}, Priority: int32(r.Intn(1 << 30))})
		}
		ms.Close()
	}
	ctx.Stats["c15.max-free-list-nodes-seen"] = int64(len(gkvlite.VerifFreeNodes()))
	e := driver.NewEnv(fmt.Sprintf("c15-bigfree-%d", idx), driver.Config{RefMon: true, Recycle: idx%2 == 0})
	e.SetCollection("a", "")
	n := r.Range(400, 900)
	for i := 0; i < n && !e.Failed(); i++ {
		e.SetItem("a", []byte(fmt.Sprintf("k%05d", i)), []byte(fmt.Sprintf("v%d", i)), int32(r.Intn(1<<30)), false)
	}
	e.Flush()
	e.Reopen(true)
	for i := 0; i < n && !e.Failed(); i += 1 + r.Intn(2) {
		e.Get(-1, "a", []byte(fmt.Sprintf("k%05d", i)))
	}
	e.Visit(-1, "a", driver.VAsc, nil, true, -1)
	for i := 0; i < n && !e.Failed(); i += 3 {
		e.GetItem(-1, "a", []byte(fmt.Sprintf("k%05d", i)), i%2 == 0)
	}
	e.Snapshot(-1)
	for i := 0; i < 20 && !e.Failed(); i++ {
		e.Delete("a", []byte(fmt.Sprintf("k%05d", i*7)))
	}
	if !e.Failed() {
		e.SnapClose(0)
		e.Close()
		e.AfterStep()
	}
	if !e.Failed() {
		if items, refs, ex := e.RC.Outstanding(); items != 0 {
			e.Failf("C15/end-of-life-imbalance/"+strings.Join(e.RC.LeakKinds(), ","), "with %d nodes on the process-wide free list: after closing the store and its snapshot %d item(s) still carry %d reference(s) gkvlite took (e.g. %s)", ctx.Stats["c15.max-free-list-nodes-seen"], items, refs, ex)
		} else {
			ctx.Stats["c15.end-of-life-balanced"]++
		}
	}
	ctx.Stats["c15.big-free-list-cases"]++
	ctx.Add(e)
	return Result{Hash: gen.Mix(15, uint64(idx)), NonTrivial: true, Viol: violOf(e),
		Sample: map[string]interface{}{"index": idx, "scripted": "big-free-list", "free_list_nodes": ctx.Stats["c15.max-free-list-nodes-seen"], "items": n}}
}

// runC15Concurrent: readers racing on the lazy-load caches with the reference monitor installed.
func runC15Concurrent(ctx *Ctx, idx int, r *gen.R) Result {
	p := c05Program(r, false, 0)
	p.MemOnly = false
	p.Cold = 1 + r.Intn(2)
	p.Flusher = nil
	// the mutator role only evicts: no version is superseded, so the recorded
	// known finding (loads through a superseded version) cannot interfere
	var ms []conc.Step
	for i := 0; i < len(p.Mutator) && i < 12; i++ {
		ms = append(ms, conc.Step{K: conc.MEvict, Coll: p.Mutator[i].Coll})
	}
	p.Mutator = ms
	for i := range p.Readers {
		for j := range p.Readers[i] {
			if st := &p.Readers[i][j]; st.K == conc.RSnapshot {
				st.K = conc.RGet
			}
		}
	}
	for len(p.Readers) < 2 {
		p.Readers = append(p.Readers, append([]conc.Step{}, p.Readers[0]...))
	}
	rc := driver.NewRefMon()
	p.Callbacks = &gkvlite.StoreCallbacks{
		ItemAlloc: func(c *gkvlite.Collection, n uint32) *gkvlite.Item {
			it := &gkvlite.Item{Key: make([]byte, n)}
			rc.Alloc(it)
			return it
		},
		ItemAddRef: func(c *gkvlite.Collection, i *gkvlite.Item) { rc.AddRef(i) },
		ItemDecRef: func(c *gkvlite.Collection, i *gkvlite.Item) { rc.DecRef(i) },
	}
	p.CloseAtEnd = true
	s := sched.New(&sched.Random{Next: r.Intn, Stick: []int{0, 30, 60}[r.Intn(3)]})
	h, _ := conc.Run(p, conc.Mode{Sched: s})
	ctx.Stats["c15.concurrent-executions"]++
	ctx.Stats["c15.items-tracked"] += int64(rc.Tracked())
	var v *Viol
	switch {
	case len(h.Panics) > 0 || h.Hung != "":
		v = &Viol{Sig: "C15/concurrent/panic-or-hang", Detail: strings.Join(h.Panics, "\n") + h.Hung}
	case rc.Violation() != "":
		vs := rc.Violation()
		v = &Viol{Sig: strings.SplitN(vs, ": ", 2)[0] + "/concurrent", Detail: vs}
	default:
		if items, refs, ex := rc.Outstanding(); items != 0 {
			v = &Viol{Sig: "C15/end-of-life-imbalance/concurrent-readers", Detail: fmt.Sprintf("readers raced on the lazy-load caches (no mutation took place); after Close %d item(s) still carry %d reference(s), e.g. %s", items, refs, ex)}
		} else {
			ctx.Stats["c15.end-of-life-balanced"]++
		}
	}
	return Result{Hash: s.Hash(), NonTrivial: true, Viol: v,
		Sample: map[string]interface{}{"index": idx, "mode": "concurrent readers + evicting mutator, deterministic schedule", "readers": len(p.Readers), "decisions": len(s.Decisions)}}
}
