package props

import (
	"fmt"
	"sort"

	"github.com/cbehopkins/gkvlite"

	"verif/internal/driver"
	"verif/internal/gen"
	"verif/internal/model"
)

// C16: whole-collection enumerations cover every item exactly once, at every size.

type c16Case struct {
	n     int
	shape int // 0 fixed-width decimal, 1 variable width, 2 binary
	file  bool
}

func c16Cases(tier string) []c16Case {
	var ns []int
	top := pick(tier, 130, 600)
	for n := 0; n <= top; n++ {
		ns = append(ns, n)
	}
	for _, base := range []int{1024, 2048, 3072, 4096} {
		for d := -1; d <= 2; d++ {
			ns = append(ns, base+d)
		}
	}
	var res []c16Case
	for _, n := range ns {
		for shape := 0; shape < 3; shape++ {
			for _, file := range []bool{false, true} {
				if n > 1000 && shape != n%3 && tier != "thorough" {
					continue // large sizes: one key shape per size in the quick tier
				}
				res = append(res, c16Case{n, shape, file})
			}
		}
	}
	return res
}

func init() {
	register(&Prop{
		ID: "C16", Level: "exploration",
		Rule:        "enumerated cases: every collection size n in 0..130 (quick) / 0..600 (thorough) plus {1023..1026, 2047..2050, 3071..3074, 4095..4098} x key shape {fixed-width decimal, variable width, binary} x store kind {memory-only, flushed+evicted+re-opened file; a third of the file cases then overwrite up to n/4 items without flushing and evict 30 times (unwritten nodes above written subtrees), a fifth of them store items through a BeforeItemWrite/AfterItemRead codec that encodes keys and values at rest}; the comparator rotates through {bytes.Compare, reverse, length-first} with the case. For n <= 200 a complete block visit is also started from inside another block visit's visitor (both must cover every item exactly once). Each case checks Len() and the multiset of keys delivered by VisitItemsAscendBlockEx under the block manglers {nil, identity, reverse, rotate-by-1, rotate-by-half, two seeded permutations, RandBm} in both value modes and by VisitItemsRandom (twice): every key exactly once. Afterwards the same handle is checked again after 1, 2, 3 and 4 further inserts/deletes (Len, Random, reversed BlockEx). For n = 0 a nil or non-nil error with zero deliveries is accepted. Non-trivial = n >= 1; distinct = distinct (n, shape, store kind).",
		Assumptions: []string{"single goroutine; block manglers return a permutation of their input"},
		Exhaustive:  func(string) bool { return true },
		NumCases:    func(tier string) int { return len(c16Cases(tier)) },
		Run:         runC16,
		Floor: func(tier string, st map[string]int64) string {
			for _, k := range []string{"c16.len-checked", "c16.item-codec-cases", "c16.rewritten-after-flush-cases", "c16.block-visits", "c16.random-visits", "c16.partial-last-block", "c16.over-max-blocks", "c16.empty", "c16.len-after-mutations", "c16.nested-block-visits", "c16.cmp=rev", "c16.cmp=lenlex"} {
				if st[k] == 0 {
					return "no " + k + " observed"
				}
			}
			return ""
		},
	})
}

func c16Key(shape, i int, r *gen.R) []byte {
	switch shape {
	case 0:
		return []byte(fmt.Sprintf("%06d", i))
	case 1:
		return []byte(fmt.Sprintf("%d", i*7+1))
	}
	b := []byte{byte(i >> 8), byte(i), byte(i * 31)}
	return append(b, byte(r.Intn(256)))
}

func runC16(ctx *Ctx, idx int) Result {
	cs := c16Cases(ctx.Tier)[idx]
	seed := CaseSeed(ctx.Seed, "C16", idx)
	r := gen.New(seed)
	SeedGlobalRand(seed)
	cfg := driver.Config{MemOnly: !cs.file}
	if cs.file && idx%5 == 4 {
		// a recycling item allocator: whoever keeps a key of an item it has released reads garbage
		cfg.RefMon, cfg.Recycle = true, true
		ctx.Stats["c16.recycling-allocator-cases"]++
	}
	if cs.file && idx%5 == 2 {
		cfg.CB = driver.CBSwap // items are stored in an encoded form, undone by AfterItemRead on every load
		ctx.Stats["c16.item-codec-cases"]++
	}
	// the comparator varies with the case: under the reverse one the empty key is NOT the minimum
	cmp := []model.Cmp{model.CmpBytes, model.CmpRev, model.CmpLenLex}[(cs.n+cs.shape+btoi(cs.file))%3]
	ctx.Stats["c16.cmp="+string(cmp)]++
	e := driver.NewEnvCmps(fmt.Sprintf("c16-%d", idx), cfg, map[string]model.Cmp{"x": cmp})
	e.SetCollection("x", cmp)
	keys := map[string]bool{}
	for i := 0; i < cs.n && !e.Failed(); i++ {
		k := c16Key(cs.shape, i, r)
		for keys[string(k)] {
			k = append(k, 'x')
		}
		keys[string(k)] = true
		e.SetItem("x", k, []byte(fmt.Sprintf("v%d", i)), int32(r.U64()&0x7fffffff), false)
	}
	if cs.file && !e.Failed() {
		e.Flush()
		e.Evict("x", 5)
		if r.Bool() {
			e.Reopen(false)
		}
		if idx%3 == 1 && cs.n > 0 {
			// partly rewritten since the flush: unwritten nodes above written subtrees, then evictions
			ks := make([]string, 0, len(keys))
			for k := range keys {
				ks = append(ks, k)
			}
			sort.Strings(ks)
			for i, m := 0, r.Range(1, cs.n/4+1); i < m && !e.Failed(); i++ {
				e.SetItem("x", []byte(ks[r.Intn(len(ks))]), []byte(fmt.Sprintf("w%d", i)), int32(r.U64()&0x7fffffff), false)
			}
			e.Evict("x", 30)
			ctx.Stats["c16.rewritten-after-flush-cases"]++
		}
	}
	c := e.H["x"]
	sig := func(kind string) string {
		cls := "n>=2"
		if cs.n == 0 {
			cls = "n=0"
		} else if cs.n == 1 {
			cls = "n=1"
		}
		return "C16/" + kind + "/" + cls
	}
	check := func(what string, run func(v gkvlite.ItemVisitorEx) error) {
		if e.Failed() {
			return
		}
		e.CurOp = what
		got := map[string]int{}
		total := 0
		var err error
		func() {
			defer func() {
				if p := recover(); p != nil {
					e.Failf(sig("panic/"+what), "%s panicked on a collection of %d items: %v", what, cs.n, p)
				}
			}()
			err = run(func(i *gkvlite.Item, depth uint64) bool {
				got[string(i.Key)]++
				total++
				return true
			})
		}()
		if e.Failed() {
			return
		}
		if cs.n == 0 {
			if total != 0 {
				e.Failf(sig("deliveries-on-empty/"+what), "%s delivered %d items from an empty collection", what, total)
			}
			return
		}
		if err != nil {
			e.Failf(sig("error/"+what), "%s on %d items: %v", what, cs.n, err)
			return
		}
		var dup, missing []string
		for k := range keys {
			if got[k] == 0 {
				missing = append(missing, k)
			}
		}
		for k, c := range got {
			if c > 1 || !keys[k] {
				dup = append(dup, fmt.Sprintf("%q x%d", k, c))
			}
		}
		sort.Strings(dup)
		sort.Strings(missing)
		if len(dup) > 0 || len(missing) > 0 {
			if len(dup) > 4 {
				dup = dup[:4]
			}
			if len(missing) > 4 {
				missing = missing[:4]
			}
			kind := "item-repeated"
			if len(dup) == 0 {
				kind = "item-missed"
			}
			e.Failf(sig(kind+"/"+what), "%s on %d items delivered %d: repeated/foreign %v, missed %q", what, cs.n, total, dup, missing)
		}
	}
	// Len
	if !e.Failed() {
		e.CurOp = "Len"
		func() {
			defer func() {
				if p := recover(); p != nil {
					e.Failf(sig("panic/Len"), "Len() panicked on a collection of %d items: %v", cs.n, p)
				}
			}()
			l, err := c.Len()
			if cs.n == 0 && err != nil {
				return
			}
			if err != nil || l != int64(cs.n) {
				e.Failf(sig("len-wrong"), "Len() = %d, %v on a collection of %d items", l, err, cs.n)
			}
		}()
		ctx.Stats["c16.len-checked"]++
	}
	manglers := []struct {
		name string
		f    gkvlite.BlockMangler
	}{
		{"nil", nil},
		{"identity", func(b [][]byte) [][]byte { return b }},
		{"reverse", func(b [][]byte) [][]byte {
			for i, j := 0, len(b)-1; i < j; i, j = i+1, j-1 {
				b[i], b[j] = b[j], b[i]
			}
			return b
		}},
		{"rot1", func(b [][]byte) [][]byte {
			if len(b) < 2 {
				return b
			}
			return append(append([][]byte{}, b[1:]...), b[0])
		}},
		{"rothalf", func(b [][]byte) [][]byte {
			h := len(b) / 2
			return append(append([][]byte{}, b[h:]...), b[:h]...)
		}},
		{"perm", func(b [][]byte) [][]byte {
			p := r.Perm(len(b))
			o := make([][]byte, len(b))
			for i, j := range p {
				o[i] = b[j]
			}
			return o
		}},
		{"RandBm", gkvlite.RandBm},
	}
	for mi, m := range manglers {
		m := m
		withVal := mi%2 == 0
		check("VisitItemsAscendBlockEx/"+m.name, func(v gkvlite.ItemVisitorEx) error {
			return c.VisitItemsAscendBlockEx(withVal, m.f, v)
		})
		ctx.Stats["c16.block-visits"]++
	}
	for i := 0; i < 2; i++ {
		check("VisitItemsRandom", func(v gkvlite.ItemVisitorEx) error { return c.VisitItemsRandom(v) })
		ctx.Stats["c16.random-visits"]++
	}
	// two block visits of the same collection that overlap in time: the visitor of the outer one
	// runs a complete inner one at its middle item; both must cover every item exactly once
	if cs.n >= 2 && cs.n <= 200 {
		innerOK := true
		check("VisitItemsAscendBlockEx/nested-outer", func(v gkvlite.ItemVisitorEx) error {
			k := 0
			return c.VisitItemsAscendBlockEx(false, manglers[2].f, func(i *gkvlite.Item, d uint64) bool {
				// the item is looked at first: the nested visit below may evict (release) it
				res := v(i, d)
				if k == cs.n/2 {
					inner := map[string]int{}
					var err error
					if cs.n%2 == 0 {
						err = c.VisitItemsRandom(func(j *gkvlite.Item, d uint64) bool { inner[string(j.Key)]++; return true })
					} else {
						err = c.VisitItemsAscendBlockEx(false, manglers[3].f, func(j *gkvlite.Item, d uint64) bool { inner[string(j.Key)]++; return true })
					}
					if err != nil || len(inner) != len(keys) {
						innerOK = false
					}
					for _, cnt := range inner {
						if cnt != 1 {
							innerOK = false
						}
					}
				}
				k++
				return res
			})
		})
		if !innerOK && !e.Failed() {
			e.Failf(sig("nested-inner-block-visit"), "a block visit started from inside another block visit's visitor did not cover every item exactly once (n=%d)", cs.n)
		}
		ctx.Stats["c16.nested-block-visits"]++
	}
	// the same collection handle again after 1, 2, 3 and 4 further mutations (version handles
	// and nodes are recycled in between, so anything remembered about an old version is stale)
	for k := 1; k <= 4 && !e.Failed() && cs.n <= 700; k++ {
		for j := 0; j < k; j++ {
			nk := []byte(fmt.Sprintf("~later-%d-%d", k, j))
			if k%2 == 1 && (k+j)%2 == 0 && len(keys) > 0 { // odd k: mixed; even k: inserts only, so that the count really changes
				var victim string
				for kk := range keys {
					if victim == "" || kk < victim {
						victim = kk
					}
				}
				e.Delete("x", []byte(victim))
				delete(keys, victim)
			} else {
				e.SetItem("x", nk, []byte("later"), int32(r.U64()&0x7fffffff), false)
				keys[string(nk)] = true
			}
		}
		want := len(keys)
		func() {
			defer func() {
				if p := recover(); p != nil {
					e.Failf(sig("panic/Len-after-mutations"), "Len() panicked after %d further mutations: %v", k, p)
				}
			}()
			l, err := c.Len()
			if want == 0 && err != nil {
				return
			}
			if err != nil || l != int64(want) {
				e.Failf("C16/len-wrong-after-further-mutations", "Len() = %d, %v after %d further mutations; the collection holds %d items", l, err, k, want)
			}
		}()
		ctx.Stats["c16.len-after-mutations"]++
		if want > 0 && !e.Failed() {
			cs2 := cs
			cs2.n = want
			saved := cs
			cs = cs2
			check("VisitItemsRandom", func(v gkvlite.ItemVisitorEx) error { return c.VisitItemsRandom(v) })
			check("VisitItemsAscendBlockEx/reverse", func(v gkvlite.ItemVisitorEx) error { return c.VisitItemsAscendBlockEx(false, manglers[2].f, v) })
			cs = saved
		}
	}
	if cs.n == 0 {
		ctx.Stats["c16.empty"]++
	}
	if cs.n > 1024 {
		ctx.Stats["c16.over-max-blocks"]++
		if cs.n%1024 != 0 {
			ctx.Stats["c16.partial-last-block"]++
		}
	}
	e.AfterStep()
	ctx.Add(e)
	return Result{Hash: gen.Mix(uint64(cs.n), uint64(cs.shape), uint64(btoi(cs.file))), NonTrivial: cs.n >= 1, Viol: violOf(e),
		Sample: map[string]interface{}{"index": idx, "n": cs.n, "key_shape": cs.shape, "file_backed": cs.file}}
}

func btoi(b bool) int {
	if b {
		return 1
	}
	return 0
}
