package props

import (
	"bytes"
	"fmt"
	"runtime"
	"strings"
	"sync"
	"sync/atomic"
	"time"

	"github.com/cbehopkins/gkvlite"

	"verif/internal/driver"
	"verif/internal/gen"
	"verif/internal/model"
)

// C18: iterators and re-entrant callbacks terminate cleanly without deadlock or leaks.

type c18Iter struct {
	n, stop, tail, state int
	desc                 bool
	target               int // 0 nil/below all, 1 a present key, 2 between keys, 3 above all
}

var c18Tails = []string{"Close", "Close,Close", "Close,Next", "Next-until-false,Next", "nothing-after-false", "Close-before-first-Next"}

func c18IterCases() []c18Iter {
	var res []c18Iter
	for n := 0; n <= 6; n++ {
		for _, desc := range []bool{false, true} {
			for target := 0; target < 4; target++ {
				for stop := 0; stop <= n+1; stop++ {
					for tail := range c18Tails {
						res = append(res, c18Iter{n: n, stop: stop, tail: tail, desc: desc, target: target, state: (n + stop + tail + target) % 3})
					}
				}
			}
		}
	}
	for _, n := range []int{50, 500} {
		for i := 0; i < 24; i++ {
			res = append(res, c18Iter{n: n, stop: []int{0, 1, n / 2, n - 1, n, n + 1}[i%6], tail: i % len(c18Tails), desc: i%2 == 0, target: i % 4, state: i % 3})
		}
	}
	return res
}

var c18Outer = []string{"VisitItemsAscend", "VisitItemsDescend", "VisitItemsAscendEx", "VisitItemsAscendBlockEx", "VisitItemsRandom", "iterator-loop"}
var c18Inner = []string{"Get", "GetItem", "MinItem", "MaxItem", "GetTotals", "nested-visit", "nested-iterator", "Snapshot+read+Close", "Set", "Delete", "Flush", "EvictSomeItems", "AllocStats", "Len", "GetCollectionNames", "SetCollection-new", "SetCollection-existing-other", "RemoveCollection-other"}

func c18Counts(tier string) (iters, reent, free int) {
	return len(c18IterCases()) + len(c18FailCases()), len(c18Outer) * len(c18Inner) * 3 * 3, pick(tier, 48, 2400)
}

func init() {
	register(&Prop{
		ID: "C18", Level: "exploration", Race: true,
		RaceFrom: func(tier string) int { a, b, _ := c18Counts(tier); return a + b },
		Rule:     "failing-visit cases (enumerated): for sizes 3 and 9 on a flushed+evicted / re-opened file, each of VisitItemsAscend, VisitItemsDescend, IterateAscend, IterateDescend runs with the k-th file read failing (every k up to 2n+2; outright error or io.EOF), the consumer reads until Next() returns false and then closes once, twice or not at all; afterwards Next() must stay false, the producer goroutine must have exited and the version pin must be back (hook refs == 1, public counters balanced after one more mutation). iterator cases (enumerated): EVERY (collection size n in 0..6, direction, target class {below all, a present key, between keys, above all}, consumer stop position p in 0..n+1, tail in {Close; Close,Close; Close,Next; Next-until-false,Next; nothing after Next returned false; Close before the first Next}) x 3 cache states, plus sampled cases at n = 50 and 500. Monitors: the items delivered before the stop equal the model's range prefix; after Close() or exhaustion Next() returns false and Err() is nil; the producer goroutine (stack inside Collection.iterate) is gone - observed via runtime stacks, yielding first, wall-clock only as a backstop; the version it pinned is released (hook: refs of the current version back to 1 and not chained; public cross-check: a following mutation makes MkRootNodeLocs-FreeRootNodeLocs return to its baseline). Re-entrancy cases (enumerated): outer in {VisitItemsAscend, Descend, AscendEx, AscendBlockEx, Random, iterator loop} x inner in {Get, GetItem, MinItem, MaxItem, GetTotals, nested visit, nested iterator, Snapshot+read+Close, Set, Delete, Flush, EvictSomeItems, AllocStats, Len, GetCollectionNames, SetCollection of a new name, SetCollection / RemoveCollection of another collection} x callback position {first, middle, last} x cache state; the inner call runs inside the visitor callback on the same goroutine (mutations included: this goroutine is the mutator); the outer sequence must be that of the version pinned at its start, the inner results must match the current model, and the whole case must finish: a watchdog goroutine dumps all stacks if it does not, and 'every goroutine of the case parked in sync/channel operations' is reported as deadlock. Free-running cases (race-detector build): a mutator, a flusher and readers whose visitor callbacks and iterator loops call read operations (incl. AllocStats and nested visits) run in real parallelism with seeded delays at the iter.produce / visit.node hooks; the child processes of these batches are started with GOMAXPROCS = 1, 2 or all cores in turn; the same termination, goroutine-exit and no-deadlock monitors apply. Non-trivial = iterator abandoned before exhaustion or closed twice / inner call executed at least once; distinct = the enumerated tuple.",
		Assumptions: []string{
			"mutations inside callbacks only from the goroutine that is the store's single mutator",
			"'all interleavings of consumer and producer' are explored by repetition with delays, not exhausted",
		},
		Exhaustive: func(string) bool { return false },
		NumCases:   func(tier string) int { a, b, c := c18Counts(tier); return a + b + c },
		Run:        runC18,
		Floor: func(tier string, st map[string]int64) string {
			for _, k := range []string{"c18.iterator-cases", "c18.closed-before-first-next", "c18.closed-twice", "c18.abandoned-mid-range", "c18.producer-exit-observed", "c18.pin-release-observed", "c18.reentrant-cases", "c18.inner-calls", "c18.inner/Set", "c18.inner/Flush", "c18.inner/SetCollection-new", "c18.inner/RemoveCollection-other", "c18.inner/AllocStats", "c18.inner/nested-iterator", "c18.free-running-cases", "c18.free-running-callback-calls", "c18.visits-ended-by-a-read-error", "c18.visit-errors-reported", "c18.iterators-on-snapshots", "c18.merge-cases"} {
				if st[k] == 0 {
					return "no " + k + " observed"
				}
			}
			return ""
		},
	})
}

// guardCase runs fn under a watchdog; a case that does not finish is a hang / deadlock.
func guardCase(limit time.Duration, fn func()) (hung string) {
	done := make(chan struct{})
	go func() { defer close(done); fn() }()
	select {
	case <-done:
		return ""
	case <-time.After(limit):
		buf := make([]byte, 1<<20)
		n := runtime.Stack(buf, true)
		return string(buf[:n])
	}
}

func deadlockSig(dump string) string {
	// state observation: are the goroutines of the case all parked?
	running := 0
	for _, g := range strings.Split(dump, "\n\n") {
		if !strings.Contains(g, "gkvlite") {
			continue
		}
		first := strings.SplitN(g, "\n", 2)[0]
		if strings.Contains(first, "[running]") || strings.Contains(first, "[runnable]") {
			running++
		}
	}
	if running == 0 {
		return "C18/deadlock/all-goroutines-blocked"
	}
	return "C18/hang/watchdog"
}

func runC18(ctx *Ctx, idx int) Result {
	ni, nr, _ := c18Counts(ctx.Tier)
	seed := CaseSeed(ctx.Seed, "C18", idx)
	r := gen.New(seed)
	SeedGlobalRand(seed)
	var res Result
	var hung string
	switch {
	case idx < len(c18IterCases()) && idx%400 == 200:
		hung = guardCase(60*time.Second, func() { res = runC18Merge(ctx, idx, r) })
	case idx < len(c18IterCases()):
		hung = guardCase(60*time.Second, func() { res = runC18Iter(ctx, idx, c18IterCases()[idx], r) })
	case idx < ni:
		hung = guardCase(60*time.Second, func() { res = runC18Fail(ctx, idx, c18FailCases()[idx-len(c18IterCases())], r) })
	case idx < ni+nr:
		hung = guardCase(60*time.Second, func() { res = runC18Reentrant(ctx, idx, idx-ni, r) })
	default:
		hung = guardCase(120*time.Second, func() { res = runC18Free(ctx, idx, r) })
	}
	if hung != "" {
		return Result{Hash: uint64(idx), NonTrivial: true, Fatal: true,
			Viol:   &Viol{Sig: deadlockSig(hung), Detail: fmt.Sprintf("case %d did not finish (operations take micro- to milliseconds); goroutine dump:\n%s", idx, firstBytes(hung, 7000))},
			Sample: map[string]interface{}{"index": idx}}
	}
	return res
}

func firstBytes(s string, n int) string {
	if len(s) > n {
		return s[:n]
	}
	return s
}

func c18Env(idx int, n int, state int, r *gen.R) (*driver.Env, [][]byte) {
	cfg := driver.Config{Walk: true, MemOnly: state == 0}
	e := driver.NewEnv(fmt.Sprintf("c18-%d", idx), cfg)
	e.SetCollection("t", "")
	var keys [][]byte
	for i := 0; i < n; i++ {
		k := []byte(fmt.Sprintf("k%04d", i*2+1))
		keys = append(keys, k)
		e.SetItem("t", k, []byte(fmt.Sprintf("v%d", i)), int32(r.U64()&0x7fffffff), false)
	}
	switch state {
	case 1:
		e.Flush()
		e.Evict("t", 4)
	case 2:
		e.Flush()
		e.Reopen(false)
	}
	return e, keys
}

func rootBalance(c *gkvlite.Collection) int64 {
	st := c.AllocStats()
	return st.MkRootNodeLocs - st.FreeRootNodeLocs
}

// pinReleased checks that nothing but the collection itself holds the current version.
func pinReleased(e *driver.Env, c *gkvlite.Collection, what string) {
	ri := gkvlite.VerifRootInfo(c)
	if !ri.Open {
		return
	}
	if ri.Refs != 1 || ri.Chained {
		e.Failf("C18/version-pin-not-released/"+what, "after %s the collection's current version still has refs=%d (chained=%v): the producer goroutine or visit did not release the version it pinned", what, ri.Refs, ri.Chained)
	}
}

// runC18Merge: ONE consumer goroutine drives many iterators at once (a k-way merge over collections and
// snapshots): all of them are advanced by one item (every producer is parked with a version pinned), then
// they are advanced round-robin to the end, some being closed early.  Nothing may block, every sequence must
// be the model's, every producer must exit and every pin must be released.
func runC18Merge(ctx *Ctx, idx int, r *gen.R) Result {
	n := r.Range(3, 25)
	e, _ := c18Env(idx, n, idx%3, r)
	e.Snapshot(-1)
	cs := []*gkvlite.Collection{e.H["t"], e.Snaps[0].H["t"]}
	m := e.M.Live.Colls["t"]
	k := r.Range(70, 260)
	type one struct {
		it      gkvlite.ItemIterator
		exp     []model.KV
		got     []model.KV
		withVal bool
		done    bool
		closeAt int
	}
	its := make([]*one, k)
	refs0 := []int64{gkvlite.VerifRootInfo(cs[0]).Refs, gkvlite.VerifRootInfo(cs[1]).Refs}
	for i := range its {
		o := &one{withVal: r.Bool(), closeAt: -1}
		c := cs[i%2]
		if r.P(30) {
			o.closeAt = r.Intn(n + 1)
		}
		if i%3 == 0 {
			o.it, o.exp = c.IterateDescend([]byte("zzzz"), o.withVal), m.Descend([]byte("zzzz"))
		} else {
			o.it, o.exp = c.IterateAscend(nil, o.withVal), m.Ascend(nil)
		}
		its[i] = o
	}
	step := func(o *one) {
		if o.done {
			return
		}
		if len(o.got) == o.closeAt {
			o.it.Close()
			o.done = true
			return
		}
		if !o.it.Next() {
			o.done = true
			if err := o.it.Err(); err != nil {
				e.Failf("C18/iterator/err", "iterator Err() = %v (one of %d iterators driven by one goroutine)", err, k)
			}
			if len(o.got) != len(o.exp) {
				e.Failf("C18/iterator/wrong-sequence", "one of %d iterators driven by one goroutine ended after %d items, the model's range has %d", k, len(o.got), len(o.exp))
			}
			return
		}
		i := o.it.Result()
		kv := model.KV{Key: append([]byte{}, i.Key...), Prio: i.Priority}
		if o.withVal && i.Val != nil {
			kv.Val = append([]byte{}, i.Val...)
		}
		o.got = append(o.got, kv)
		if len(o.got) > len(o.exp) || !kvPrefixEqual(o.got, o.exp[:len(o.got)], o.withVal) {
			e.Failf("C18/iterator/wrong-sequence", "one of %d iterators driven by one goroutine delivered a wrong item at position %d", k, len(o.got)-1)
			o.done = true
		}
	}
	for _, o := range its { // every producer gets parked holding its pin
		step(o)
	}
	ctx.Stats["c18.max-iterators-open-at-once"] = int64(k)
	for round := 0; round <= n+2 && !e.Failed(); round++ {
		for _, o := range its {
			step(o)
		}
	}
	for _, o := range its {
		if !o.done {
			o.it.Close()
		}
		if o.it.Next() {
			e.Failf("C18/iterator/next-true-after-end", "Next() returned true after the iterator was closed / exhausted (k-way merge)")
		}
	}
	if st := driver.WaitIterProducers(20 * time.Second); st != "" {
		e.Failf("C18/producer-goroutine-leak/merge", "producer goroutines are still alive after the consumer of %d iterators finished:\n%s", k, st)
	} else {
		ctx.Stats["c18.producer-exit-observed"]++
	}
	if !e.Failed() {
		for j, c := range cs {
			if ri := gkvlite.VerifRootInfo(c); ri.Open && ri.Refs != refs0[j] {
				e.Failf("C18/version-pin-not-released/merge", "the version had refs=%d before %d iterators were created and refs=%d after they all finished", refs0[j], k, ri.Refs)
			}
		}
		ctx.Stats["c18.pin-release-observed"]++
	}
	e.SnapClose(0)
	e.AfterStep()
	ctx.Stats["c18.merge-cases"]++
	ctx.Add(e)
	return Result{Hash: gen.Mix(uint64(idx), 1818), NonTrivial: true, Viol: violOf(e),
		Sample: map[string]interface{}{"index": idx, "kind": "k-way merge by one consumer", "iterators": k, "size": n}}
}

func runC18Iter(ctx *Ctx, idx int, cs c18Iter, r *gen.R) Result {
	e, keys := c18Env(idx, cs.n, cs.state, r)
	c := e.H["t"]
	m := e.M.Live.Colls["t"]
	// a quarter of the cases iterate over a snapshot's collection instead of the store's own
	onSnap := idx%4 == 3
	if onSnap {
		e.Snapshot(-1)
		c = e.Snaps[0].H["t"]
		ctx.Stats["c18.iterators-on-snapshots"]++
	}
	refsBefore := gkvlite.VerifRootInfo(c).Refs
	var target []byte
	switch cs.target {
	case 0:
		target = nil
		if cs.desc {
			target = []byte("zzzz") // descending visits keys < target
		}
	case 1:
		if cs.n > 0 {
			target = keys[cs.n/2]
		} else {
			target = []byte("k0001")
		}
	case 2:
		target = []byte(fmt.Sprintf("k%04d", cs.n)) // even number: between / outside the odd keys
	case 3:
		target = []byte("zzzz")
		if cs.desc {
			target = []byte{}
		}
	}
	var exp []model.KV
	if cs.desc {
		exp = m.Descend(target)
	} else {
		exp = m.Ascend(target)
	}
	base := rootBalance(c)
	withVal := (cs.stop+cs.tail)%2 == 0
	var it gkvlite.ItemIterator
	if cs.desc {
		it = c.IterateDescend(target, withVal)
	} else {
		it = c.IterateAscend(target, withVal)
	}
	var got []model.KV
	exhausted := false
	tail := c18Tails[cs.tail]
	take := cs.stop
	if tail == "Close-before-first-Next" {
		take = 0
		ctx.Stats["c18.closed-before-first-next"]++
	}
	if tail == "Next-until-false,Next" || tail == "nothing-after-false" {
		take = 1 << 30
	}
	for len(got) < take {
		if !it.Next() {
			exhausted = true
			break
		}
		i := it.Result()
		kv := model.KV{Key: append([]byte{}, i.Key...), Prio: i.Priority}
		if withVal && i.Val != nil {
			kv.Val = append([]byte{}, i.Val...)
		}
		got = append(got, kv)
	}
	wantN := take
	if wantN > len(exp) {
		wantN = len(exp)
	}
	if !kvPrefixEqual(got, exp[:wantN], withVal) {
		e.Failf("C18/iterator/wrong-sequence", "iterator (desc=%v target %q withValue=%v) delivered %d items before the stop, expected the first %d of the model's range", cs.desc, target, withVal, len(got), wantN)
	}
	switch tail {
	case "Close", "Close-before-first-Next":
		it.Close()
	case "Close,Close":
		it.Close()
		it.Close()
		ctx.Stats["c18.closed-twice"]++
	case "Close,Next":
		it.Close()
		if it.Next() {
			e.Failf("C18/iterator/next-true-after-close", "Next() returned true after Close()")
		}
	case "Next-until-false,Next":
		if it.Next() {
			e.Failf("C18/iterator/next-true-after-exhaustion", "Next() returned true after it had returned false")
		}
		it.Close()
	case "nothing-after-false":
		// the consumer simply walks away after Next() returned false
	}
	if !exhausted && len(got) < len(exp) {
		ctx.Stats["c18.abandoned-mid-range"]++
	}
	if it.Next() {
		e.Failf("C18/iterator/next-true-after-end", "Next() returned true after the iterator was closed / exhausted (tail %s)", tail)
	}
	if exhausted {
		if err := it.Err(); err != nil { // ordered after the producer's write only once Next() has returned false
			e.Failf("C18/iterator/err", "iterator Err() = %v", err)
		}
	}
	// the producer goroutine must exit ...
	if st := driver.WaitIterProducers(20 * time.Second); st != "" {
		e.Failf("C18/producer-goroutine-leak/tail="+strings.ReplaceAll(tail, ",", "+"), "the iterator's producer goroutine is still alive after the consumer finished (size %d, stop %d, tail %s):\n%s", cs.n, cs.stop, tail, st)
	} else {
		ctx.Stats["c18.producer-exit-observed"]++
	}
	// ... and release the version it pinned
	if !e.Failed() && onSnap {
		if ri := gkvlite.VerifRootInfo(c); ri.Open && ri.Refs != refsBefore {
			e.Failf("C18/version-pin-not-released/snapshot-iterator", "the version of the snapshot's collection had refs=%d before the iterator was created and has refs=%d after it finished (tail %s): the iterator did not release what it pinned", refsBefore, ri.Refs, tail)
		} else {
			ctx.Stats["c18.pin-release-observed"]++
		}
		e.SnapClose(0)
	}
	if !e.Failed() && !onSnap {
		pinReleased(e, c, "iterator "+tail)
		e.SetItem("t", []byte("after"), []byte("x"), 5, false) // retires the old version if nobody pins it
		if !e.Failed() && rootBalance(c) != base {
			e.Failf("C18/version-pin-not-released/public-stats", "MkRootNodeLocs-FreeRootNodeLocs is %d after the iterator finished and one more mutation, %d before: a version is still pinned", rootBalance(c), base)
		}
		if !e.Failed() {
			ctx.Stats["c18.pin-release-observed"]++
		}
	}
	e.AfterStep()
	ctx.Stats["c18.iterator-cases"]++
	ctx.Add(e)
	return Result{Hash: gen.Mix(uint64(idx), 18), NonTrivial: !exhausted || cs.tail > 0, Viol: violOf(e),
		Sample: map[string]interface{}{"index": idx, "kind": "iterator", "size": cs.n, "descending": cs.desc, "target": string(target), "stop_after": cs.stop, "tail": tail, "cache_state": cs.state}}
}

func kvPrefixEqual(a, b []model.KV, withVal bool) bool {
	if len(a) != len(b) {
		return false
	}
	for i := range a {
		if !bytes.Equal(a[i].Key, b[i].Key) || a[i].Prio != b[i].Prio || (withVal && !bytes.Equal(a[i].Val, b[i].Val)) {
			return false
		}
	}
	return true
}

// runC18Reentrant: an API call nested inside a visitor callback.
func runC18Reentrant(ctx *Ctx, idx, k int, r *gen.R) Result {
	state := k % 3
	k /= 3
	pos := k % 3
	k /= 3
	inner := c18Inner[k%len(c18Inner)]
	outer := c18Outer[k/len(c18Inner)]
	n := 7
	e, keys := c18Env(idx, n, state, r)
	e.SetCollection("other", "")
	e.SetItem("other", []byte("o"), []byte("o"), 1, false)
	if state != 0 {
		e.Flush()
	}
	c := e.H["t"]
	m := e.M.Live.Colls["t"]
	if (inner == "Flush") && state == 0 {
		// memory-only stores cannot flush: the call must still return (with an error)
	}
	pinned := m.Clone() // the version the outer visit starts on
	callAt := []int{0, n / 2, n - 1}[pos]
	delivered := 0
	var got []model.KV
	innerCalls := 0
	doInner := func() {
		innerCalls++
		ctx.Stats["c18.inner/"+inner]++
		key := keys[(delivered+3)%n]
		switch inner {
		case "Get":
			e.Get(-1, "t", key)
		case "GetItem":
			e.GetItem(-1, "t", key, delivered%2 == 0)
		case "MinItem":
			e.MinMax(-1, "t", false, true)
		case "MaxItem":
			e.MinMax(-1, "t", true, false)
		case "GetTotals":
			e.TotalsOp(-1, "t")
		case "nested-visit":
			e.Visit(-1, "t", driver.VisitKind(delivered%4), key, true, -1)
		case "nested-iterator":
			e.Visit(-1, "t", driver.VIterAsc, key, false, 2)
		case "Snapshot+read+Close":
			e.Snapshot(-1)
			si := len(e.Snaps) - 1
			e.Visit(si, "t", driver.VAsc, nil, true, -1)
			e.SnapClose(si)
		case "Set":
			e.SetItem("t", []byte(fmt.Sprintf("k%04d", 100+delivered)), []byte("nested"), int32(r.U64()&0x7fffffff), false)
			e.SetItem("t", key, []byte("overwritten-in-callback"), int32(r.U64()&0x7fffffff), false)
		case "Delete":
			e.Delete("t", key)
		case "Flush":
			e.Flush()
		case "EvictSomeItems":
			e.Evict("t", 2)
		case "AllocStats":
			c.AllocStats()
			e.S.Stats(map[string]uint64{})
		case "Len":
			e.Len(-1, "t")
		case "GetCollectionNames":
			e.GetCollection("t")
		case "SetCollection-new": // store-level mutations from the mutating goroutine
			e.SetCollection(fmt.Sprintf("new-%d", delivered), "")
		case "SetCollection-existing-other":
			e.SetCollection("other", "")
		case "RemoveCollection-other":
			e.RemoveCollection("other")
			e.SetCollection("other", "")
		}
	}
	visit := func(i *gkvlite.Item) bool {
		got = append(got, model.KV{Key: append([]byte{}, i.Key...), Val: append([]byte{}, i.Val...), Prio: i.Priority})
		if delivered == callAt {
			doInner()
		}
		delivered++
		return true
	}
	visitEx := func(i *gkvlite.Item, d uint64) bool { return visit(i) }
	var err error
	exact := true // the outer delivers the pinned version in order
	func() {
		defer func() {
			if p := recover(); p != nil {
				e.Failf("C18/reentrant/panic/outer="+outer+"/inner="+inner, "%s with %s inside its callback panicked: %v", outer, inner, p)
			}
		}()
		switch outer {
		case "VisitItemsAscend":
			err = c.VisitItemsAscend(nil, true, visit)
		case "VisitItemsDescend":
			err = c.VisitItemsDescend([]byte("zzzz"), true, visit)
		case "VisitItemsAscendEx":
			err = c.VisitItemsAscendEx(nil, true, visitEx)
		case "VisitItemsAscendBlockEx":
			exact = false // several inner visits: each pins its own version
			err = c.VisitItemsAscendBlockEx(true, nil, visitEx)
		case "VisitItemsRandom":
			exact = false
			err = c.VisitItemsRandom(visitEx)
		case "iterator-loop":
			it := c.IterateAscend(nil, true)
			for it.Next() {
				visit(it.Result())
			}
			err = it.Err()
			it.Close()
			if st := driver.WaitIterProducers(20 * time.Second); st != "" {
				e.Failf("C18/producer-goroutine-leak/reentrant", "producer goroutine still alive after an iterator loop with %s inside:\n%s", inner, st)
			}
		}
	}()
	mutating := inner == "Set" || inner == "Delete"
	if !e.Failed() {
		if err != nil {
			e.Failf("C18/reentrant/outer-error/outer="+outer+"/inner="+inner, "%s returned %v with %s inside its callback", outer, err, inner)
		} else if exact {
			exp := pinned.Sorted()
			if outer == "VisitItemsDescend" {
				exp = pinned.Descend([]byte("zzzz"))
			}
			if !kvPrefixEqual(got, exp, true) {
				e.Failf("C18/reentrant/outer-sequence/outer="+outer+"/inner="+inner, "%s delivered %d items that are not the version pinned at its start (%d items) although only the callback itself (%s) changed the store", outer, len(got), len(exp), inner)
			}
		} else if !mutating && len(got) != len(pinned.Items) {
			e.Failf("C18/reentrant/outer-count/outer="+outer+"/inner="+inner, "%s delivered %d items of %d with the read-only call %s inside its callback", outer, len(got), len(pinned.Items), inner)
		}
	}
	if !e.Failed() {
		pinReleased(e, c, outer+" with "+inner+" inside")
		e.ReadbackAll(driver.RAll)
		e.AfterStep()
	}
	ctx.Stats["c18.reentrant-cases"]++
	ctx.Stats["c18.inner-calls"] += int64(innerCalls)
	ctx.Add(e)
	return Result{Hash: gen.Mix(uint64(idx), 180), NonTrivial: innerCalls > 0, Viol: violOf(e),
		Sample: map[string]interface{}{"index": idx, "kind": "re-entrant callback", "outer": outer, "inner": inner, "callback_position": callAt, "cache_state": state}}
}

// runC18Free: real parallelism; callbacks and iterator loops calling read operations while a mutator and a flusher run.
func runC18Free(ctx *Ctx, idx int, r *gen.R) Result {
	// the degree of real parallelism varies with the child process: the orchestrator starts the
	// race-built batches with GOMAXPROCS=1 (pure time slicing), 2 or all cores in turn (set in the
	// environment, not changed at run time: resizing under the race detector once crashed the runtime)
	ctx.Stats[fmt.Sprintf("c18.free-running/gomaxprocs=%d", runtime.GOMAXPROCS(0))]++
	state := idx % 3
	e, keys := c18Env(idx, 12, state, r)
	c := e.H["t"]
	s := e.S
	var ctr uint64
	gkvlite.VerifSetPoint(func(name string) {
		if name == "iter.produce" || name == "visit.node" || name == "mut.published" {
			x := atomic.AddUint64(&ctr, 0x9e3779b97f4a7c15)
			if x>>59 == 0 {
				time.Sleep(time.Duration(10+x%100) * time.Microsecond)
			} else if x>>61 == 0 {
				runtime.Gosched()
			}
		}
	})
	defer gkvlite.VerifSetPoint(nil)
	var wg sync.WaitGroup
	var stop int32
	var calls, problems int64
	var firstProblem atomic.Value
	report := func(f string, a ...interface{}) {
		if atomic.AddInt64(&problems, 1) == 1 {
			firstProblem.Store(fmt.Sprintf(f, a...))
		}
	}
	rounds := 150
	// mutator (the only goroutine that mutates)
	wg.Add(1)
	go func() {
		defer wg.Done()
		defer func() {
			atomic.StoreInt32(&stop, 1) // also when the mutator dies, so that the others end
			if p := recover(); p != nil {
				report("mutator panicked: %v\n%s", p, gkvStack())
			}
		}()
		for i := 0; i < rounds*4; i++ {
			k := keys[i%len(keys)]
			if i%3 == 0 {
				c.Delete(k)
			} else if err := c.SetItem(&gkvlite.Item{Key: k, Val: []byte(fmt.Sprintf("m%d", i)), Priority: int32(i * 7 % 1000)}); err != nil {
				report("mutator SetItem: %v", err)
			}
			if i%16 == 0 {
				c.EvictSomeItems()
			}
		}
		atomic.StoreInt32(&stop, 1)
	}()
	// flusher
	if state != 0 {
		wg.Add(1)
		go func() {
			defer wg.Done()
			for atomic.LoadInt32(&stop) == 0 {
				e.F.SetTag("Flush")
				if err := s.Flush(); err != nil {
					report("Flush: %v", err)
				}
				runtime.Gosched()
			}
		}()
		e.F.SetTagFunc(func() string { return "Flush" }) // only the flusher writes; tags are not per-goroutine here
	}
	// readers
	for w := 0; w < 3; w++ {
		wg.Add(1)
		w := w
		go func() {
			defer wg.Done()
			defer func() {
				if p := recover(); p != nil {
					report("reader panicked: %v\n%s", p, gkvStack())
				}
			}()
			for i := 0; atomic.LoadInt32(&stop) == 0 && i < rounds*20; i++ {
				inCallback := func(it *gkvlite.Item) bool {
					atomic.AddInt64(&calls, 1)
					switch (i + w) % 6 {
					case 0:
						c.AllocStats()
					case 1:
						c.Get(it.Key)
					case 2:
						c.GetTotals()
					case 3:
						c.VisitItemsDescend(it.Key, false, func(*gkvlite.Item) bool { return false })
					case 4:
						sn := s.Snapshot()
						sn.GetCollection("t").MinItem(false)
						sn.Close()
					case 5:
						s.Stats(map[string]uint64{})
						c.MaxItem(true)
					}
					return true
				}
				if (i+w)%2 == 0 {
					if err := c.VisitItemsAscend(nil, i%4 == 0, inCallback); err != nil {
						report("reader visit: %v", err)
					}
				} else {
					it := c.IterateAscend(nil, false)
					abandoned := false
					for n := 0; it.Next(); n++ {
						inCallback(it.Result())
						if n == i%5 {
							abandoned = true
							break
						}
					}
					if !abandoned {
						if err := it.Err(); err != nil {
							report("iterator Err: %v", err)
						}
					}
					it.Close()
				}
			}
		}()
	}
	wg.Wait()
	var v *Viol
	if p, _ := firstProblem.Load().(string); p != "" {
		v = &Viol{Sig: "C18/free-running/" + strings.SplitN(p, ":", 2)[0], Detail: p}
	} else if st := driver.WaitIterProducers(30 * time.Second); st != "" {
		v = &Viol{Sig: "C18/producer-goroutine-leak/free-running", Detail: "producer goroutines still alive after all consumers finished:\n" + st}
	} else {
		ri := gkvlite.VerifRootInfo(c)
		if ri.Refs != 1 || ri.Chained {
			v = &Viol{Sig: "C18/version-pin-not-released/free-running", Detail: fmt.Sprintf("after all readers, iterators and the mutator finished the current version has refs=%d chained=%v", ri.Refs, ri.Chained)}
		}
	}
	ctx.Stats["c18.free-running-cases"]++
	ctx.Stats["c18.free-running-callback-calls"] += atomic.LoadInt64(&calls)
	return Result{Hash: gen.Mix(uint64(idx), uint64(calls)), NonTrivial: calls > 0, Viol: v,
		Sample: map[string]interface{}{"index": idx, "kind": "free-running", "cache_state": state, "callback_calls": calls}}
}

// gkvStack returns the gkvlite/harness frames of the current goroutine's stack.
func gkvStack() string {
	buf := make([]byte, 1<<14)
	n := runtime.Stack(buf, false)
	var out []string
	for _, l := range strings.Split(string(buf[:n]), "\n") {
		if strings.Contains(l, "gkvlite") || strings.Contains(l, "verif/") {
			out = append(out, strings.TrimSpace(l))
		}
		if len(out) > 24 {
			break
		}
	}
	return strings.Join(out, "\n")
}
