package props

import (
	"time"

	"github.com/cbehopkins/gkvlite"

	"verif/internal/driver"
	"verif/internal/gen"
	"verif/internal/vfile"
)

// Visits and iterators that END WITH AN ERROR: one file read fails in the middle.  Whatever the
// call reports, afterwards Next() must return false, the producer goroutine must be gone and the
// version must be released - the same obligations as after exhaustion or Close().

type c18Fail struct {
	n     int
	api   int // 0 VisitItemsAscend, 1 VisitItemsDescend, 2 IterateAscend, 3 IterateDescend
	k     int // the k-th file read issued after the visit started fails
	tail  int // iterators: 0 Close() after Next() returned false, 1 the consumer walks away, 2 Close() twice
	state int // 1 flushed+evicted, 2 flushed+re-opened
	eof   bool
}

func c18FailCases() []c18Fail {
	var res []c18Fail
	for _, n := range []int{3, 9} {
		for api := 0; api < 4; api++ {
			for k := 1; k <= 2*n+2; k++ {
				res = append(res, c18Fail{n: n, api: api, k: k, tail: (k + api) % 3, state: 1 + (k+n)%2, eof: (k+api)%4 == 3})
			}
		}
	}
	return res
}

func runC18Fail(ctx *Ctx, idx int, cs c18Fail, r *gen.R) Result {
	e, _ := c18Env(idx, cs.n, cs.state, r)
	c := e.H["t"]
	base := rootBalance(c)
	withVal := cs.k%2 == 0
	ft := &vfile.Fault{Nth: cs.k, Partial: -1, EOF: cs.eof}
	var err error
	delivered := 0
	what := []string{"VisitItemsAscend", "VisitItemsDescend", "IterateAscend", "IterateDescend"}[cs.api]
	e.F.Arm(ft)
	switch cs.api {
	case 0:
		err = c.VisitItemsAscend(nil, withVal, func(i *gkvlite.Item) bool { delivered++; return true })
	case 1:
		err = c.VisitItemsDescend([]byte("zzzz"), withVal, func(i *gkvlite.Item) bool { delivered++; return true })
	default:
		var it gkvlite.ItemIterator
		if cs.api == 2 {
			it = c.IterateAscend(nil, withVal)
		} else {
			it = c.IterateDescend([]byte("zzzz"), withVal)
		}
		for it.Next() {
			delivered++
			if delivered > cs.n+2 {
				e.Failf("C18/iterator/too-many-items", "%s delivered more items than the collection has", what)
				break
			}
		}
		err = it.Err()
		switch cs.tail {
		case 0:
			it.Close()
		case 2:
			it.Close()
			it.Close()
		}
		if it.Next() {
			e.Failf("C18/iterator/next-true-after-end", "Next() returned true after it had returned false (%s ended by a read error)", what)
		}
	}
	e.F.Disarm()
	if ft.Fired {
		ctx.Stats["c18.visits-ended-by-a-read-error"]++
		if err != nil {
			ctx.Stats["c18.visit-errors-reported"]++
		}
	}
	if st := driver.WaitIterProducers(20 * time.Second); st != "" {
		e.Failf("C18/producer-goroutine-leak/after-error", "the iterator's producer goroutine is still alive after the iteration ended with a read error (size %d, failing read %d, tail %d):\n%s", cs.n, cs.k, cs.tail, st)
	}
	if !e.Failed() {
		pinReleased(e, c, what+" ended by a read error")
		e.SetItem("t", []byte("after"), []byte("x"), 5, false)
		if !e.Failed() && rootBalance(c) != base {
			e.Failf("C18/version-pin-not-released/public-stats", "MkRootNodeLocs-FreeRootNodeLocs is %d after %s ended with a read error and one more mutation, %d before: a version is still pinned", rootBalance(c), what, base)
		}
	}
	e.AfterStep()
	ctx.Stats["c18.failing-visit-cases"]++
	ctx.Add(e)
	return Result{Hash: gen.Mix(uint64(idx), 1818), NonTrivial: ft.Fired, Viol: violOf(e),
		Sample: map[string]interface{}{"index": idx, "kind": "visit ended by a read error", "api": what, "size": cs.n, "failing_read": cs.k, "fired": ft.Fired, "delivered": delivered, "error_reported": err != nil}}
}
