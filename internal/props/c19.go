package props

import (
	"fmt"
	"strings"

	"github.com/cbehopkins/gkvlite"

	"verif/internal/conc"
	"verif/internal/driver"
	"verif/internal/gen"
	"verif/internal/sched"
	"verif/internal/vfile"
)

// C19: lazy loading - opening is O(1) and key-only operations never read values.

var mixC19 = Mix{Set: 26, Delete: 9, Get: 2, GetItem: 8, Exist: 5, MinMax: 6, Totals: 2, Visit: 9, Iter: 2, Len: 2,
	Flush: 9, Evict: 8, Reopen: 7, Snapshot: 2, SnapRead: 4, SnapClose: 1, SetCollNew: 1}

func init() {
	register(&Prop{
		ID: "C19", Level: "exploration",
		Rule:        "the lazy-read monitor lives inside the instrumented StoreFile and judges EVERY ReadAt with the API call in progress as a tag. (1) During NewStore on a file that ends in a root record every read must lie inside that root record and there may be at most 4 of them; right after the open the hook walk must find no cached node or item in any collection; dedicated cases open files holding 10, 100 and 1000 items of 1-4 KB values and require the identical number of reads and bytes. (2) During key-only operations (GetItem/MinItem/MaxItem and all visit kinds and iterators with withValue=false, Exist, Len, Set/SetItem, Delete - on the store and through snapshots) no read may intersect the value bytes of ANY item record reachable from any root record ever completed in the file (ranges come from the independent decoder, run on every completed root record). Cases = random histories (a third of them under a random subset of neutral callbacks) with 1-4 KB values over all cache states (fresh, partially loaded, evicted, key-only cached items) followed by a sweep of every key-only operation over every present key and absent targets; plus concurrent cases: 2-4 readers doing key-only visits / Min / Max next to a mutator and a flusher on a cold (evicted or re-opened) file under the deterministic yield-point scheduler (switches at every file call), so that two readers load the same uncached item at the same time. Non-trivial = key-only operations executed against a re-opened or evicted tree holding values; distinct = op-trace hash.",
		Assumptions: []string{"zero-length values have no byte range", "with-value operations are free to read values"},
		NumCases:    func(tier string) int { return pick(tier, 400, 15000) + 12 + pick(tier, 600, 20000) },
		Run:         runC19,
		Floor: func(tier string, st map[string]int64) string {
			for _, k := range []string{"c19.key-only-reads", "c19.value-ranges", "c19.opens-checked", "c19.open-size-series", "op.Reopen", "evicted", "c19.sweep-ops", "c19.concurrent-executions", "c19.callback-configurations", "c19.long-value-warm-up-cases"} {
				if st[k] == 0 {
					return "no " + k + " observed"
				}
			}
			return ""
		},
	})
}

func runC19(ctx *Ctx, idx int) Result {
	seed := CaseSeed(ctx.Seed, "C19", idx)
	r := gen.New(seed)
	SeedGlobalRand(seed)
	if idx < 12 {
		return runC19OpenSeries(ctx, idx, r)
	}
	if idx >= 12+pick(ctx.Tier, 400, 15000) {
		return runC19Concurrent(ctx, idx, r)
	}
	cfg := driver.Config{TrackValues: true, Walk: true, ReadbackK: 0}
	if idx%3 == 0 {
		// neutral callbacks must not make key-only operations read values either
		cfg.CB = driver.CBMask(r.Intn(64)) &^ (driver.CBAlloc | driver.CBRef)
		ctx.Stats["c19.callback-configurations"]++
	}
	hc := HistCfg{Steps: r.Range(25, 70), NColls: r.Range(1, 2), NKeys: r.Range(4, 16), KeyClass: gen.KeysShort, ValClass: []gen.ValClass{gen.ValsBig, gen.ValsMixed}[r.Intn(2)],
		Prio: gen.PrioRegime(r.Intn(int(gen.NumPrioRegimes))), Mix: mixC19, MaxSnaps: 1}
	h := NewHist(r, cfg, hc, fmt.Sprintf("c19-%d", idx))
	e := h.E
	reads0 := func() int64 {
		var t int64
		for tag, n := range e.F.TagCalls {
			if driver.KeyOnlyTags[tag] {
				t += n
			}
		}
		return t
	}
	for i := 0; i < hc.Steps && !e.Failed(); i++ {
		nopen := e.Stats["op.Open"]
		h.Step()
		if e.Stats["op.Open"] > nopen && !e.Failed() && e.S != nil {
			c19NothingLoaded(ctx, e)
		}
		e.AfterStep()
	}
	e.ResumeAll()
	// sweep: every key-only operation over every present key and absent targets, on a cold tree
	if !e.Failed() && e.S != nil {
		// two values far larger than any buffer, to be overwritten by values of the same length later
		bigKeys := map[string][]byte{}
		if idx%2 == 0 {
			for _, n := range e.M.Live.Names() {
				if s := e.M.Live.Colls[n].Sorted(); len(s) > 0 {
					k := s[r.Intn(len(s))].Key
					e.SetItem(n, k, r.Bytes([]int{20000, 65536, 70000}[r.Intn(3)]), h.Prios.Next(r), false)
					bigKeys[n] = k
					ctx.Stats["c19.big-values"]++
				}
			}
		}
		warm := 0
		if idx%8 == 5 {
			// a collection for a long run of with-value loads right before the key-only sweep (a store
			// that has served hundreds of value requests must still not read values for key-only ones)
			e.SetCollection("warm-up", "")
			warm = r.Range(130, 300)
			for i := 0; i < warm && !e.Failed(); i++ {
				e.SetItem("warm-up", []byte(fmt.Sprintf("w%04d", i)), r.Bytes(r.Range(200, 1200)), int32(r.Intn(1<<30)), false)
			}
		}
		e.Flush()
		// a snapshot that has served as the source of a copy, used for key-only reads afterwards
		snapIdx := -1
		if idx%4 == 1 && !e.Failed() {
			for i := range e.Snaps {
				e.SnapClose(i)
			}
			e.Snapshot(-1)
			snapIdx = len(e.Snaps) - 1
			e.CopyTo(snapIdx, r.Range(-1, 3))
			ctx.Stats["c19.snapshot-copied-before-sweep"]++
		}
		if r.P(35) {
			// a CopyTo that fails part way (destination write fault) must not leave the source in a
			// state in which key-only operations read values
			e.DstFault = &vfile.Fault{Nth: r.Range(2, 40), Partial: -1}
			e.CopyTo(-1, r.Range(1, 3))
			e.DstFault = nil
			ctx.Stats["c19.failed-copyto-before-sweep"]++
		}
		if r.Bool() {
			e.Reopen(false)
			c19NothingLoaded(ctx, e)
		} else {
			for _, n := range e.M.Live.Names() {
				e.Evict(n, 8)
			}
		}
		if warm > 0 && !e.Failed() {
			for i := 0; i < warm && !e.Failed(); i++ {
				e.Get(-1, "warm-up", []byte(fmt.Sprintf("w%04d", i)))
			}
			e.Visit(-1, "warm-up", driver.VAsc, nil, true, -1)
			ctx.Stats["c19.long-value-warm-up-cases"]++
			ctx.Stats["c19.value-loads-before-sweep"] += int64(2 * warm)
		}
		for _, n := range e.M.Live.Names() {
			m := e.M.Live.Colls[n]
			targets := [][]byte{nil, {}, {0xff, 0xff, 0xff}}
			for _, kv := range m.Sorted() {
				targets = append(targets, kv.Key, append(append([]byte{}, kv.Key...), 0))
			}
			for _, t := range targets {
				e.GetItem(-1, n, t, false)
				e.Exist(-1, n, t)
				e.Visit(-1, n, driver.VisitKind(r.Intn(6)), t, false, -1)
				ctx.Stats["c19.sweep-ops"] += 3
				if snapIdx >= 0 && snapIdx < len(e.Snaps) && !e.Snaps[snapIdx].Closed {
					e.GetItem(snapIdx, n, t, false)
					e.Exist(snapIdx, n, t)
					e.Visit(snapIdx, n, driver.VisitKind(r.Intn(4)), t, false, -1)
					ctx.Stats["c19.sweep-ops"] += 3
				}
			}
			if snapIdx >= 0 && snapIdx < len(e.Snaps) && !e.Snaps[snapIdx].Closed {
				e.MinMax(snapIdx, n, false, false)
				e.MinMax(snapIdx, n, true, false)
				e.Len(snapIdx, n)
			}
			e.MinMax(-1, n, false, false)
			e.MinMax(-1, n, true, false)
			e.Len(-1, n)
			// key-only mutations on a cold tree
			if k, ok := bigKeys[n]; ok {
				if old, ok := m.Get(k); ok {
					// a new value of exactly the old length, through Set() and through SetItem()
					e.SetItem(n, k, r.Bytes(len(old.Val)), old.Prio, true)
					e.SetItem(n, k, r.Bytes(len(old.Val)), old.Prio, false)
					ctx.Stats["c19.sweep-ops"] += 2
				}
			}
			if s := m.Sorted(); len(s) > 0 {
				e.Delete(n, s[r.Intn(len(s))].Key)
				e.SetItem(n, s[r.Intn(len(s))].Key, []byte("overwrite"), h.Prios.Next(r), false)
			}
			e.SetItem(n, []byte("fresh-key"), []byte("fresh"), h.Prios.Next(r), false)
			ctx.Stats["c19.sweep-ops"] += 6
			e.AfterStep()
		}
	}
	ctx.Stats["c19.key-only-reads"] += reads0()
	ctx.Stats["c19.value-ranges"] += int64(e.F.NumValueRanges())
	ctx.Add(e)
	nt := (h.Feat["reopen"] || h.Feat["evict"]) && e.F.NumValueRanges() > 0
	return Result{Hash: histHash(e), NonTrivial: nt, Viol: violOf(e),
		Sample: map[string]interface{}{"index": idx, "features": featList(h.Feat), "value_ranges": e.F.NumValueRanges(), "ops": tail(e.Trace, 30)}}
}

// c19NothingLoaded asserts through the hook that a freshly opened store has cached no node.
func c19NothingLoaded(ctx *Ctx, e *driver.Env) {
	for n, c := range e.H {
		cnt := 0
		gkvlite.VerifWalk(c, func(gkvlite.VerifNode) { cnt++ })
		if cnt != 0 {
			e.Failf("C19/open-loaded-nodes", "right after NewStore collection %q already has %d node(s) cached", n, cnt)
			return
		}
	}
	ctx.Stats["c19.opens-checked"]++
}

// runC19OpenSeries: the cost of opening does not depend on how much data the file holds.
func runC19OpenSeries(ctx *Ctx, idx int, r *gen.R) Result {
	type cost struct{ reads, bytes, stats int64 }
	var costs []cost
	var sizes []int
	var viol *Viol
	for _, n := range []int{10, 100, 1000} {
		e := driver.NewEnv(fmt.Sprintf("c19o-%d-%d", idx, n), driver.Config{TrackValues: idx%2 == 0})
		e.SetCollection("data", "")
		if idx%3 == 0 {
			e.SetCollection("second", "")
		}
		for i := 0; i < n; i++ {
			e.SetItem("data", []byte(fmt.Sprintf("key-%05d-%d", i, idx)), r.Bytes(r.Range(1000, 4000)), int32(r.U64()&0x7fffffff), false)
			if i%97 == 0 && idx%4 == 1 {
				e.Flush()
			}
		}
		e.Flush()
		r0, b0, s0 := e.F.NReads, e.F.BytesRead, e.F.NStats
		e.Reopen(idx%2 == 0)
		c19NothingLoaded(ctx, e)
		e.AfterStep()
		costs = append(costs, cost{e.F.NReads - r0, e.F.BytesRead - b0, e.F.NStats - s0})
		sizes = append(sizes, int(e.F.Size()))
		ctx.Add(e)
		if e.Failed() {
			viol = violOf(e)
			break
		}
	}
	if viol == nil {
		for i := 1; i < len(costs); i++ {
			if costs[i].reads != costs[0].reads || costs[i].stats != costs[0].stats {
				viol = &Viol{Sig: "C19/open-cost-grows-with-file", Detail: fmt.Sprintf("opening files of %v bytes cost %+v (reads, bytes, stats): the number of calls depends on the amount of data", sizes, costs)}
			}
		}
	}
	ctx.Stats["c19.open-size-series"]++
	return Result{Hash: gen.Mix(uint64(idx), 19), NonTrivial: true, Viol: viol,
		Sample: map[string]interface{}{"index": idx, "open_series": true, "file_sizes": sizes, "open_costs_reads_bytes_stats": fmt.Sprintf("%+v", costs)}}
}

// runC19Concurrent: key-only readers racing to load the same uncached items.
func runC19Concurrent(ctx *Ctx, idx int, r *gen.R) Result {
	p := c05Program(r, false, 0)
	p.MemOnly = false
	p.Cold = 1 + r.Intn(2)
	for i := range p.Readers {
		for j := range p.Readers[i] {
			st := &p.Readers[i][j]
			st.WithVal = false
			if st.K == conc.RGet || st.K == conc.RSnapshot || st.K == conc.RTotals {
				st.K = conc.RVisit
				st.Key = nil
				st.Stop = -1
			}
		}
	}
	for len(p.Readers) < 2 {
		p.Readers = append(p.Readers, append([]conc.Step{}, p.Readers[0]...))
	}
	s := sched.New(&sched.Random{Next: r.Intn, Stick: []int{0, 30, 60}[r.Intn(3)]})
	h, f := conc.Run(p, conc.Mode{Sched: s})
	ctx.Stats["c19.concurrent-executions"]++
	ctx.Stats["c19.key-only-reads"] += f.TagCalls["Visit(k)"] + f.TagCalls["MinMax(k)"]
	ctx.Stats["c19.value-ranges"] += int64(f.NumValueRanges())
	var v *Viol
	if len(f.Violations) > 0 {
		sig := f.Violations[0]
		if i := strings.Index(sig, ": "); i > 0 {
			sig = sig[:i]
		}
		v = &Viol{Sig: sig + "/concurrent", Detail: "[concurrent key-only readers, deterministic schedule] " + f.Violations[0]}
	} else if len(h.Panics) > 0 || h.Hung != "" {
		v = &Viol{Sig: "C19/concurrent/panic-or-hang", Detail: strings.Join(h.Panics, "\n") + h.Hung}
	}
	return Result{Hash: s.Hash(), NonTrivial: f.NumValueRanges() > 0, Viol: v,
		Sample: map[string]interface{}{"index": idx, "mode": "concurrent key-only readers", "readers": len(p.Readers), "decisions": len(s.Decisions)}}
}
