// Package props holds one runner per property: a value-determined case list
// (functions of the seed and the case index only) and the monitor wiring.
package props

import (
	"fmt"
	"sort"

	"verif/internal/driver"
	"verif/internal/gen"
	"verif/internal/vfile"
)

// Viol is a violation as reported to the orchestrator.
type Viol struct {
	Sig    string   `json:"signature"`
	Detail string   `json:"detail"`
	Step   int      `json:"step"`
	Op     string   `json:"op"`
	Trace  []string `json:"trace,omitempty"`
}

// Result is the outcome of one case.
type Result struct {
	Hash         uint64      // identifies the case for distinctness
	NonTrivial   bool        // satisfies the property's non-triviality rule
	Viol         *Viol       // nil = held
	Inconclusive string      // non-empty = neither verdict
	Sample       interface{} // written-out description of the case
	Fatal        bool        // the process is no longer usable (e.g. goroutines deadlocked on package-global locks)
}

// Ctx is passed to every case.
type Ctx struct {
	Tier  string
	Seed  uint64
	Stats map[string]int64
}

func (c *Ctx) Thorough() bool { return c.Tier == "thorough" }

// Add merges an env's statistics.
func (c *Ctx) Add(e *driver.Env) {
	if e == nil {
		return
	}
	for k, v := range e.Stats {
		c.Stats[k] += v
	}
	for k, v := range e.CBCounts() {
		c.Stats[k] += v
	}
	if e.RC != nil && e.RC.Recycle {
		c.Stats["c17.items-recycled"] += e.RC.RecycledCount()
	}
	if e.F != nil {
		c.Stats["file.reads"] += e.F.NReads
		c.Stats["file.writes"] += e.F.NWrites
		c.Stats["file.stats"] += e.F.NStats
		c.Stats["file.truncates"] += e.F.NTruncs
	}
}

// Prop is one registered property check.
type Prop struct {
	ID    string
	Level string // exploration | fault_enumeration
	Race  bool   // build the child with -race
	// RaceFrom: with Race, only the cases with index >= RaceFrom(tier) run in the
	// race-instrumented binary; the others run in the plain one.
	RaceFrom    func(tier string) int
	Rule        string
	Assumptions []string
	Exhaustive  func(tier string) bool
	NumCases    func(tier string) int
	Run         func(ctx *Ctx, idx int) Result
	// Floor inspects merged statistics and returns a reason if the run
	// observed too little to support a verdict.
	Floor func(tier string, stats map[string]int64) string
	// Serial forces a single child (cases share process-global state).
	Serial bool
}

var Registry = map[string]*Prop{}

func register(p *Prop) { Registry[p.ID] = p }

// IDs returns the registered ids, sorted.
func IDs() []string {
	var r []string
	for k := range Registry {
		r = append(r, k)
	}
	sort.Strings(r)
	return r
}

// CaseSeed derives the seed of one case.
func CaseSeed(seed uint64, prop string, idx int) uint64 {
	return gen.Mix(seed, gen.MixS(prop), uint64(idx))
}

func violOf(e *driver.Env) *Viol {
	if e == nil || e.Viol == nil {
		return nil
	}
	v := &Viol{Sig: e.Viol.Sig, Detail: e.Viol.Detail, Step: e.Viol.Step, Op: e.Viol.Op, Trace: tail(e.Trace, 60)}
	if e.F != nil && e.F.KeepLog {
		wl := e.F.WriteLog()
		if len(wl) > 16 {
			wl = wl[len(wl)-16:]
		}
		for _, c := range wl {
			v.Trace = append(v.Trace, fmt.Sprintf("  [file] #%d %s off=%d len=%d n=%d err=%v tag=%s", c.Seq, c.Kind, c.Off, c.Len, c.N, c.Err, c.Tag))
		}
		v.Trace = append(v.Trace, fmt.Sprintf("  [file] size=%d durableEnd=%d", e.F.Size(), e.F.DurableEnd()))
	}
	return v
}

func tail(s []string, n int) []string {
	if len(s) > n {
		return s[len(s)-n:]
	}
	return s
}

func pick(tier string, quick, thorough int) int {
	if tier == "thorough" {
		return thorough
	}
	return quick
}

func featList(f map[string]bool) []string {
	var r []string
	for k, v := range f {
		if v && len(k) < 40 && !hasPrefix(k, "placement-since:") {
			r = append(r, k)
		}
	}
	sort.Strings(r)
	return r
}

func hasPrefix(s, p string) bool { return len(s) >= len(p) && s[:len(p)] == p }

// newScratchFile returns an instrumented file that accepts writes from any call (CopyTo destinations in sweeps).
func newScratchFile() *vfile.File {
	f := vfile.New("scratch")
	f.SetTag("CopyTo(dst)")
	return f
}
