package props

import (
	"fmt"
	"math/rand"

	"verif/internal/driver"
	"verif/internal/gen"
	"verif/internal/model"
	"verif/internal/vfile"
)

// Mix holds the relative weights of the operation kinds of a history.
type Mix struct {
	Set, SetInvalid, Delete, Get, GetItem, Exist, MinMax, Totals, Visit, Iter, Len  int
	Flush, Evict, Reopen                                                            int
	Snapshot, SnapRead, SnapClose, SnapRevert, SnapOfSnap, SnapMutate               int
	SetCollNew, SetCollExisting, RemoveColl, GetColl, FlushRevert, CollWrite, Close int
	CopyTo                                                                          int
	PinVisit, ResumeVisit                                                           int
	FaultyMut                                                                       int // a Set/Delete during which one file read fails
	FaultyFlush                                                                     int // a Flush during which one file write fails (outright or torn), optionally retried
	VisitEvict                                                                      int // a key-only visit whose callback calls EvictSomeItems (as CopyTo does)
	FaultyCopy                                                                      int // a CopyTo during which one read of the source file fails
}

// HistCfg describes how a history is generated.
type HistCfg struct {
	Steps     int
	NColls    int
	NKeys     int
	KeyClass  gen.KeyClass
	ValClass  gen.ValClass
	Prio      gen.PrioRegime
	Mix       Mix
	Exotic    bool // exotic collection names
	MaxSnaps  int
	CustomCmp bool // some collections use non-default comparators
	UseSetPct int  // percentage of Set() (random priority) instead of SetItem()
	RotCmp    bool // comparators from one parameterised closure family; replaced while a collection is empty
}

// Hist is the running state of a generated history.
type Hist struct {
	E       *driver.Env
	R       *gen.R
	Cfg     HistCfg
	Names   []string // universe of collection names
	Keys    map[string][][]byte
	Prios   *gen.PrioGen
	valN    int
	Feat    map[string]bool // features seen, for non-triviality rules
	lastMut map[string]string
}

// NewHist creates the environment and the initial collections.
func NewHist(r *gen.R, cfg driver.Config, hc HistCfg, envName string) *Hist {
	h := &Hist{R: r, Cfg: hc, Keys: map[string][][]byte{}, Prios: gen.NewPrioGen(hc.Prio), Feat: map[string]bool{}, lastMut: map[string]string{}}
	h.Names = gen.CollNames(r, hc.NColls+2, hc.Exotic)
	cmps := map[string]model.Cmp{}
	for i, n := range h.Names {
		cmps[n] = model.CmpBytes
		if hc.CustomCmp && i%2 == 1 {
			cmps[n] = []model.Cmp{model.CmpRev, model.CmpLenLex}[r.Intn(2)]
		}
		if hc.RotCmp {
			cmps[n] = model.Cmp(fmt.Sprintf("rot:%d", r.Range(1, 250)))
		}
		h.Keys[n] = gen.Keys(r, hc.NKeys, hc.KeyClass)
	}
	h.E = driver.NewEnvCmps(envName, cfg, cmps)
	for i := 0; i < hc.NColls && !h.E.Failed(); i++ {
		h.E.SetCollection(h.Names[i], cmps[h.Names[i]])
	}
	return h
}

func (h *Hist) nextVal() []byte {
	h.valN++
	var frag []byte
	if h.Cfg.ValClass == gen.ValsMagic && h.E.F != nil {
		b := h.E.F.Bytes()
		if n := len(b); n > 60 {
			s := n - h.R.Range(46, 120)
			if s < 0 {
				s = 0
			}
			frag = b[s:]
		}
	}
	return gen.Val(h.R, h.Cfg.ValClass, fmt.Sprintf("%s#%d", h.E.Name, h.valN), frag)
}

func (h *Hist) liveName() string {
	names := h.E.M.Live.Names()
	if len(names) == 0 {
		return ""
	}
	return names[h.R.Intn(len(names))]
}

func (h *Hist) key(name string, presentPct int) []byte {
	m := h.E.M.Live.Colls[name]
	if m != nil && len(m.Items) > 0 && h.R.P(presentPct) {
		s := m.Sorted()
		return s[h.R.Intn(len(s))].Key
	}
	ks := h.Keys[name]
	if len(ks) == 0 {
		return []byte("k")
	}
	return ks[h.R.Intn(len(ks))]
}

// Target derives a visit target from the contents of a collection.
func Target(r *gen.R, m *model.Coll, universe [][]byte) []byte {
	s := m.Sorted()
	switch r.Intn(9) {
	case 0:
		return nil
	case 1:
		return []byte{}
	case 2:
		return []byte{0xff, 0xff, 0xff, 0xff, 0xff}
	case 3:
		return []byte{0}
	}
	if len(s) == 0 {
		if len(universe) > 0 {
			return universe[r.Intn(len(universe))]
		}
		return []byte("t")
	}
	k := s[r.Intn(len(s))].Key
	switch r.Intn(4) {
	case 0:
		return k
	case 1:
		return append(append([]byte{}, k...), 0)
	case 2:
		// predecessor-ish byte string
		p := append([]byte{}, k...)
		if p[len(p)-1] > 0 {
			p[len(p)-1]--
			p = append(p, 0xff)
		} else {
			p = p[:len(p)-1]
		}
		return p
	}
	if len(universe) > 0 {
		return universe[r.Intn(len(universe))]
	}
	return k
}

func (h *Hist) snapIdx() int {
	var open []int
	for i, s := range h.E.Snaps {
		if !s.Closed {
			open = append(open, i)
		}
	}
	if len(open) == 0 {
		return -1
	}
	return open[h.R.Intn(len(open))]
}

func (h *Hist) openSnaps() int {
	n := 0
	for _, s := range h.E.Snaps {
		if !s.Closed {
			n++
		}
	}
	return n
}

// Step generates and executes one operation.
func (h *Hist) Step() {
	e, r, mx := h.E, h.R, h.Cfg.Mix
	if e.S == nil { // closed: must reopen
		if e.Cfg.MemOnly || e.NoRootsStop {
			return
		}
		e.Reopen(false)
		h.Feat["reopen"] = true
		return
	}
	w := []int{mx.Set, mx.SetInvalid, mx.Delete, mx.Get, mx.GetItem, mx.Exist, mx.MinMax, mx.Totals, mx.Visit, mx.Iter, mx.Len,
		mx.Flush, mx.Evict, mx.Reopen, mx.Snapshot, mx.SnapRead, mx.SnapClose, mx.SnapRevert, mx.SnapOfSnap, mx.SnapMutate,
		mx.SetCollNew, mx.SetCollExisting, mx.RemoveColl, mx.GetColl, mx.FlushRevert, mx.CollWrite, mx.Close, mx.CopyTo, mx.PinVisit, mx.ResumeVisit, mx.FaultyMut, mx.FaultyFlush, mx.VisitEvict, mx.FaultyCopy}
	name := h.liveName()
	op := r.WeightedPick(w)
	switch op {
	case 13, 24, 26: // re-open, FlushRevert, Close: no reader may be in flight on the old handles
		e.ResumeAll()
	}
	switch op {
	case 0: // Set
		if name == "" {
			return
		}
		k := h.key(name, 35)
		m := e.M.Live.Colls[name]
		prio := h.Prios.Next(r)
		if old, ok := m.Get(k); ok {
			h.Feat["overwrite"] = true
			switch r.Intn(4) { // overwrite with lower / equal / higher priority
			case 0:
				if old.Prio > 0 && h.Cfg.Prio != gen.PrioDistinct {
					prio = old.Prio - 1
				}
			case 1:
				prio = old.Prio
			}
			if h.lastMut[name+"/"+string(k)] != "" && h.Feat["placement-since:"+name+"/"+string(k)] {
				h.Feat["placement-between-mutations-of-a-key"] = true
			}
		}
		e.SetItem(name, k, h.nextVal(), prio, r.P(h.Cfg.UseSetPct))
		h.markMut(name, k)
	case 1: // invalid item
		if name == "" {
			return
		}
		h.Feat["invalid"] = true
		switch r.Intn(3) {
		case 0:
			e.SetItem(name, gen.InvalidKey(r), []byte("v"), 1, r.P(30))
		case 1:
			e.SetItem(name, h.key(name, 50), nil, 1, r.P(30))
		case 2:
			e.SetItem(name, h.key(name, 50), []byte("v"), -1-int32(r.Intn(5)), false)
		}
	case 2: // Delete
		if name == "" {
			return
		}
		k := h.key(name, 70)
		if _, ok := e.M.Live.Colls[name].Get(k); ok {
			h.Feat["delete"] = true
			if h.Feat["placement-since:"+name+"/"+string(k)] {
				h.Feat["placement-between-mutations-of-a-key"] = true
			}
		}
		e.Delete(name, k)
		h.markMut(name, k)
	case 3:
		if name != "" {
			e.Get(-1, name, h.key(name, 70))
		}
	case 4:
		if name != "" {
			e.GetItem(-1, name, h.key(name, 70), r.Bool())
		}
	case 5:
		if name != "" {
			e.Exist(-1, name, h.key(name, 60))
		}
	case 6:
		if name != "" {
			e.MinMax(-1, name, r.Bool(), r.Bool())
		}
	case 7:
		if name != "" {
			e.TotalsOp(-1, name)
		}
	case 8, 9: // visits / iterators
		if name == "" {
			return
		}
		m := e.M.Live.Colls[name]
		kind := driver.VisitKind(r.Intn(4))
		if mx.Iter > 0 && r.P(100*mx.Iter/(mx.Iter+mx.Visit+1)) {
			kind = driver.VIterAsc + driver.VisitKind(r.Intn(2))
		}
		stop := -1
		if r.P(40) {
			stop = r.Intn(len(m.Items) + 1)
		}
		e.Visit(-1, name, kind, Target(r, m, h.Keys[name]), r.Bool(), stop)
	case 10:
		if name != "" {
			e.Len(-1, name)
		}
	case 11:
		e.Flush()
		h.Feat["flush"] = true
		h.placement()
	case 12:
		if name != "" && !e.Cfg.MemOnly {
			e.Evict(name, r.Range(1, 4))
			h.Feat["evict"] = true
			h.placement()
		}
	case 13:
		if !e.Cfg.MemOnly {
			e.Reopen(r.Bool())
			h.Feat["reopen"] = true
			h.placement()
		}
	case 14:
		if h.openSnaps() < h.Cfg.MaxSnaps {
			e.Snapshot(-1)
			h.Feat["snapshot"] = true
		}
	case 15: // read through a snapshot
		si := h.snapIdx()
		if si < 0 {
			return
		}
		sn := e.Snaps[si]
		names := sn.M.Names()
		if len(names) == 0 {
			return
		}
		n := names[r.Intn(len(names))]
		m := sn.M.Colls[n]
		h.Feat["snapread"] = true
		switch r.Intn(5) {
		case 0:
			e.Get(si, n, h.key(n, 50))
		case 1:
			e.GetItem(si, n, h.key(n, 50), r.Bool())
		case 2:
			e.MinMax(si, n, r.Bool(), r.Bool())
		case 3:
			e.TotalsOp(si, n)
		case 4:
			e.Visit(si, n, driver.VisitKind(r.Intn(4)), Target(r, m, h.Keys[n]), r.Bool(), -1)
		}
	case 16:
		if si := h.snapIdx(); si >= 0 {
			e.SnapClose(si)
			h.Feat["snapclose"] = true
		}
	case 17:
		if si := h.snapIdx(); si >= 0 {
			e.SnapRevert(si)
			h.Feat["snaprevert"] = true
		}
	case 18:
		if si := h.snapIdx(); si >= 0 && h.openSnaps() < h.Cfg.MaxSnaps {
			e.Snapshot(si)
			h.Feat["snapofsnap"] = true
		}
	case 19:
		if si := h.snapIdx(); si >= 0 {
			names := e.Snaps[si].M.Names()
			n := ""
			if len(names) > 0 {
				n = names[r.Intn(len(names))]
			}
			e.SnapMutate(si, n, []byte("k"))
		}
	case 20: // SetCollection on a new name
		for _, n := range h.Names {
			if _, ok := e.M.Live.Colls[n]; !ok {
				if h.Cfg.RotCmp && r.P(50) {
					// a collection re-created under a name may get another comparator than its predecessor
					e.Cmps[n] = model.Cmp(fmt.Sprintf("rot:%d", r.Range(1, 250)))
					e.Stats["comparator-changed-at-re-creation"]++
				}
				e.SetCollection(n, e.Cmps[n])
				h.Feat["setcoll-new"] = true
				break
			}
		}
	case 21:
		if name != "" {
			if len(e.M.Live.Colls[name].Items) > 0 {
				h.Feat["setcoll-existing-nonempty"] = true
			} else if h.Cfg.RotCmp {
				// an empty collection may get ANY new comparator: it must really be installed
				e.Cmps[name] = model.Cmp(fmt.Sprintf("rot:%d", r.Range(1, 250)))
				h.Feat["comparator-replaced-while-empty"] = true
				e.Stats["comparator-replaced-while-empty"]++
			}
			// (a non-empty collection keeps the comparator it is ordered by)
			e.SetCollection(name, func() model.Cmp {
				if c := e.M.Live.Colls[name]; len(c.Items) > 0 {
					return c.Cmp
				}
				return e.Cmps[name]
			}())
		}
	case 22:
		if r.P(25) {
			// a name the store does not hold: a documented no-op, which must stay one for every other
			// collection (names from the universe, and neighbours in sort order of a live name)
			n := h.Names[r.Intn(len(h.Names))]
			if name != "" {
				switch r.Intn(4) {
				case 0:
					n = name + "\x00"
				case 1:
					n = name[:len(name)/2]
				case 2:
					n = name + "~"
				}
			}
			if _, live := e.M.Live.Colls[n]; !live {
				h.Feat["removecoll-absent"] = true
				e.Stats["removecollection-of-absent-name"]++
				e.RemoveCollection(n)
				return
			}
		}
		if name != "" {
			if len(e.M.Live.Colls[name].Items) > 0 {
				h.Feat["removecoll-nonempty"] = true
			}
			e.RemoveCollection(name)
		}
	case 23:
		n := h.Names[r.Intn(len(h.Names))]
		e.GetCollection(n)
	case 24:
		e.FlushRevert()
		h.Feat["flushrevert"] = true
	case 25:
		if name != "" {
			wrote := false
			for i, sn := range e.Snaps {
				// Write() through a snapshot's handle: refused or not, it must leave the file alone
				if !sn.Closed && r.P(50) {
					e.SnapCollWrite(i, name)
					h.Feat["snap-collwrite"] = true
					wrote = true
					break
				}
			}
			if !wrote {
				e.CollWrite(name)
				h.Feat["collwrite"] = true
			}
		}
	case 26:
		e.Close()
		h.Feat["close"] = true
	case 27:
		e.CopyTo(-1, r.Range(-1, 5))
	case 28:
		if name != "" && e.OpenPins() < 3 {
			n := len(e.M.Live.Colls[name].Items)
			if n > 0 {
				e.PinVisit(name, r.Bool(), r.Bool(), r.Intn(n))
				h.Feat["pinvisit"] = true
			}
		}
	case 30: // a mutation that fails half way because one file read fails
		if name == "" || e.F == nil {
			return
		}
		if r.P(60) {
			// make the tree cold (and deep enough) first, so that the mutation has to read nodes from the file
			for len(e.M.Live.Colls[name].Items) < 4 && !e.Failed() {
				e.SetItem(name, []byte(fmt.Sprintf("deep-%d", h.valN)), h.nextVal(), h.Prios.Next(r), false)
			}
			e.Flush()
			e.Reopen(r.Bool())
			if e.Failed() || e.S == nil {
				return
			}
			e.Stats["failed-mutation-attempts-cold"]++
		}
		e.Stats["failed-mutation-attempts"]++
		ft := &vfile.Fault{Nth: r.Range(1, 12), Partial: -1}
		e.Fault = ft
		e.F.Arm(ft)
		if r.P(35) {
			e.Delete(name, h.key(name, 90))
		} else {
			e.SetItem(name, h.key(name, 50), h.nextVal(), h.Prios.Next(r), false)
		}
		e.Stats["failed-mutation-calls-seen"] += int64(e.F.Disarm())
		e.Fault = nil
		if ft.Fired {
			h.Feat["failed-mutation"] = true
			e.Stats["failed-mutations"]++
		}
	case 33: // a CopyTo that fails on a read of its source
		if e.F == nil {
			return
		}
		ft := &vfile.Fault{Nth: r.Range(1, 30), Partial: -1}
		e.Fault = ft
		e.F.Arm(ft)
		e.CopyTo(-1, r.Range(-1, 3))
		e.F.Disarm()
		e.Fault = nil
		if ft.Fired {
			h.Feat["failed-copy"] = true
			e.Stats["failed-copies"]++
		}
	case 32: // the visitor evicts while the visit is in progress (re-entrancy from the mutator goroutine)
		if name == "" {
			return
		}
		e.VisitEvicting(name, r.Bool(), r.Intn(3))
		h.Feat["visit-evict"] = true
	case 31: // a Flush that fails on one of its writes; the retry must make everything durable
		if e.F == nil {
			return
		}
		part := -1
		if r.P(50) {
			part = r.Range(1, 40) // torn write (clamped to the write's length)
		}
		ft := &vfile.Fault{Nth: r.Range(1, 14), Partial: part}
		e.Fault = ft
		e.F.Arm(ft)
		e.Flush()
		e.F.Disarm()
		e.Fault = nil
		if ft.Fired {
			h.Feat["failed-flush"] = true
			e.Stats["failed-flushes"]++
			if r.P(60) && !e.Failed() {
				e.Flush() // retried
				e.Stats["retried-flushes"]++
			}
		}
		h.Feat["flush"] = true
		h.placement()
	case 29:
		for i, p := range e.Pins {
			if !p.Done && r.P(60) {
				e.ResumeVisit(i)
				h.Feat["resumevisit"] = true
				break
			}
		}
	}
}

func (h *Hist) markMut(name string, k []byte) {
	id := name + "/" + string(k)
	h.lastMut[id] = "m"
	delete(h.Feat, "placement-since:"+id)
}

func (h *Hist) placement() {
	for id := range h.lastMut {
		h.Feat["placement-since:"+id] = true
	}
}

// Run executes the history and the per-step monitors.
func (h *Hist) Run() {
	for i := 0; i < h.Cfg.Steps && !h.E.Failed(); i++ {
		h.Step()
		h.E.AfterStep()
	}
	h.E.ResumeAll()
}

// SeedGlobalRand makes gkvlite's own random choices replayable.
func SeedGlobalRand(seed uint64) { rand.Seed(int64(seed)) }
