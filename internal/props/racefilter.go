package props

import (
	"encoding/json"

	"verif/internal/racefilter"
)

// RaceFilterJSON classifies race detector logs and renders the result for
// the orchestrator.
func RaceFilterJSON(paths []string) string {
	sum, viols := racefilter.Classify(paths)
	var vs []map[string]interface{}
	for _, v := range viols {
		vs = append(vs, map[string]interface{}{"signature": v.Sig, "detail": v.Detail, "index": -1})
	}
	b, _ := json.Marshal(map[string]interface{}{"summary": sum, "violations": vs})
	return string(b)
}
