// Package racefilter parses Go race detector logs and separates the benign
// cache-publication reports (the lazy-load caches gkvlite deliberately leaves
// unsynchronised: nodeLoc.loc/node, itemLoc.loc/item - the maintainers'
// compile-time switches nodeMutex/itemLocMutex are off and they exclude a
// test from race builds for this reason) from reports that touch the state
// the concurrency properties are anchored in.  The class table is fixed here,
// with a justification per entry; it is never learned from runs.
package racefilter

import (
	"fmt"
	"os"
	"regexp"
	"sort"
	"strings"
)

// Violation is a race report that is not a benign cache publication.
type Violation struct {
	Sig    string
	Detail string
}

type access struct {
	write  bool
	frames []string // function names, innermost first
}

// benignWriters: functions whose WRITE access publishes / fills a lazily
// loaded cache entry of immutable file content (idempotent).
var benignWriters = map[string]string{
	"(*nodeLoc).setLoc":    "records the file location of a node after it was written (same value for all readers)",
	"(*nodeLoc).setNode":   "caches a node loaded from the file",
	"(*nodeLoc).casNode":   "caches a node loaded from the file unless another reader already did",
	"(*itemLoc).setLoc":    "records the file location of an item after it was written",
	"(*itemLoc).casItem":   "caches / evicts an item loaded from the file",
	"populateNode":         "initialises a freshly allocated node that is only afterwards published through setNode",
	"(*ploc).read":         "initialises a freshly allocated ploc that is only afterwards published",
	"(*node).setNumBytes":  "initialises a freshly allocated node (populateNode)",
	"(*node).setNumNodes":  "initialises a freshly allocated node (populateNode)",
	"(*Store).ItemAlloc":   "allocates an item that is only afterwards published through casItem",
	"(*Store).ItemValRead": "fills the value of a freshly allocated item before it is published",
	"(*itemLoc).read":      "field initialisation of a freshly allocated item before casItem publishes it",
	"(*nodeLoc).write":     "allocates the ploc that setLoc publishes",
	"(*itemLoc).write":     "allocates the ploc that setLoc publishes",
	"(*nodeLoc).read":      "allocation inside the lazy node load",
}

// benignReaders: the by-value copy of a node struct in nodeLoc.write
// (node.populateDiskStruct has a value receiver) reads fields it never uses.
var benignReaders = map[string]string{
	"(*nodeLoc).write": "by-value copy of the node for populateDiskStruct (reads next / item.item without using them)",
}

// critical functions: any report with one of these on either side is a violation.
var critical = []string{
	"mkNode", "freeNodeUnlocked", "mkNodeLoc", "freeNodeLoc", "mkRootNodeLoc", "freeRootNodeLoc",
	"markReclaimable", "unmarkReclaimable", "markTreeReclaimableUnlocked", "reclaimMarkUpdate", "reclaimNodesUnlocked",
	"rootCAS", "rootAddRef", "rootDecRef", "rootDecRefUnlocked", "closeCollection",
	"setColl", "getColl", "casColl", "setSize", "getSize", "SetCollection", "RemoveCollection", "Snapshot",
	"(*nodeLoc).Copy", "(*itemLoc).Copy",
}

var fnRe = regexp.MustCompile(`^\s+(\S+)\(`)

func short(fn string) string {
	// github.com/cbehopkins/gkvlite.(*nodeLoc).setNode -> (*nodeLoc).setNode
	if i := strings.Index(fn, "gkvlite."); i >= 0 {
		return fn[i+len("gkvlite."):]
	}
	return fn
}

func parse(paths []string) (reports [][]access, raw []string) {
	for _, p := range paths {
		b, err := os.ReadFile(p)
		if err != nil {
			continue
		}
		for _, blk := range strings.Split(string(b), "==================") {
			if !strings.Contains(blk, "WARNING: DATA RACE") {
				continue
			}
			var accs []access
			var cur *access
			for _, l := range strings.Split(blk, "\n") {
				t := strings.TrimSpace(l)
				switch {
				case strings.HasPrefix(t, "Write at"), strings.HasPrefix(t, "Previous write at"), strings.HasPrefix(t, "Atomic write"), strings.HasPrefix(t, "Previous atomic write"):
					accs = append(accs, access{write: true})
					cur = &accs[len(accs)-1]
				case strings.HasPrefix(t, "Read at"), strings.HasPrefix(t, "Previous read at"), strings.HasPrefix(t, "Atomic read"), strings.HasPrefix(t, "Previous atomic read"):
					accs = append(accs, access{})
					cur = &accs[len(accs)-1]
				case strings.HasPrefix(t, "Goroutine "), strings.HasPrefix(t, "Location:"):
					cur = nil
				default:
					if cur != nil {
						if m := fnRe.FindStringSubmatch(l); m != nil && !strings.HasPrefix(t, "/") {
							cur.frames = append(cur.frames, m[1])
						}
					}
				}
			}
			if len(accs) >= 2 {
				reports = append(reports, accs[:2])
				raw = append(raw, blk)
			}
		}
	}
	return
}

func innerGkv(a access) string {
	for _, f := range a.frames {
		if strings.Contains(f, "gkvlite.") {
			return short(f)
		}
	}
	return ""
}

// harnessOnly reports whether the access has no gkvlite frame at all (it
// is an access of harness code to memory, e.g. the visitor reading an item).
func harnessOnly(a access) bool { return innerGkv(a) == "" }

// markWriters only ever write the free-list/reclaim-mark link n.next.
var markWriters = map[string]bool{"(*Collection).markReclaimable": true, "(*Collection).reclaimMarkUpdate": true,
	"(*Collection).unmarkReclaimable": true, "markTreeReclaimableUnlocked": true}

func isCritical(a access) string {
	s := innerGkv(a)
	if s == "" {
		return ""
	}
	for _, c := range critical {
		if s == c || strings.HasSuffix(s, ")."+c) {
			if strings.HasSuffix(c, ".Copy") && !a.write {
				return "" // Copy reads its source; only its writes (construction of a node) are critical
			}
			return s
		}
	}
	return ""
}

// classifyPair returns "" for a benign cache-publication report, else the reason.
func classifyPair(a, b access) string {
	if !a.write && !b.write {
		return ""
	}
	// both sides outside gkvlite: the harness races with itself
	if harnessOnly(a) && harnessOnly(b) {
		return "harness"
	}
	for _, p := range [][2]access{{a, b}, {b, a}} {
		w, o := p[0], p[1]
		if !w.write {
			continue
		}
		wi := innerGkv(w)
		// the flusher's by-value copy of a node (populateDiskStruct has a value
		// receiver) reads n.next without using it, while the mutator sets a mark
		if markWriters[wi] && !o.write && innerGkv(o) == "(*nodeLoc).write" {
			continue
		}
		if c := isCritical(w); c != "" {
			return "critical"
		}
		if harnessOnly(w) {
			return "harness-writes-shared-memory"
		}
		if benignWriters[wi] == "" {
			return "unclassified-writer"
		}
		// a benign writer (cache publication, or initialisation of a freshly loaded
		// object before its unsynchronised publication): the other side may be any
		// reader - also the mutator's own code that walks nodes reached through the
		// cache pointers - or another publication.  A critical WRITER on the other
		// side is caught by the second orientation of this loop.
	}
	return ""
}

// Classify returns a summary and the violations.
func Classify(paths []string) (map[string]interface{}, []Violation) {
	reports, raw := parse(paths)
	benign := map[string]int{}
	viol := map[string]int{}
	violRaw := map[string]string{}
	for i, r := range reports {
		a, b := r[0], r[1]
		pair := []string{innerGkv(a), innerGkv(b)}
		sort.Strings(pair)
		key := pair[0] + " <-> " + pair[1]
		reason := classifyPair(a, b)
		if reason == "" {
			benign[key]++
			continue
		}
		k := reason + ": " + key
		viol[k]++
		if _, ok := violRaw[k]; !ok {
			violRaw[k] = raw[i]
		}
	}
	var vs []Violation
	var keys []string
	for k := range viol {
		keys = append(keys, k)
	}
	sort.Strings(keys)
	for _, k := range keys {
		sig := "race/" + strings.NewReplacer(" ", "", "<->", "~").Replace(k)
		blk := violRaw[k]
		if len(blk) > 3000 {
			blk = blk[:3000]
		}
		vs = append(vs, Violation{Sig: sig, Detail: fmt.Sprintf("%d race report(s) outside the benign cache-publication class (%s):\n%s", viol[k], k, blk)})
	}
	sum := map[string]interface{}{
		"reports": len(reports), "benign_cache_publication_pairs": benign, "violating_pairs": viol,
		"class_definition": "benign = every write access of the pair is a cache publication / initialisation-before-publication of immutable file content (nodeLoc.setLoc/setNode, itemLoc.setLoc/casItem, populateNode, ploc.read, ItemAlloc, ItemValRead, allocation in nodeLoc/itemLoc read/write); violation = a frame in the allocator, reclaim-mark, root CAS/ref, collection-map or size code, nodeLoc/itemLoc Copy as the writer, or harness code",
	}
	return sum, vs
}
