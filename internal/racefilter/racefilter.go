// Package racefilter parses Go race detector logs and separates the benign
// cache-publication reports (the lazy-load caches gkvlite deliberately leaves
// unsynchronised: nodeLoc.loc/node, itemLoc.loc/item) from reports that touch
// the state the concurrency properties are anchored in.
package racefilter

// Violation is a race report that is not a benign cache publication.
type Violation struct {
	Sig    string
	Detail string
}

// Classify is filled in together with the C05 check.
func Classify(paths []string) (map[string]interface{}, []Violation) {
	return map[string]interface{}{"reports": 0}, nil
}
