// Package sched is a deterministic yield-point scheduler: worker goroutines
// are real goroutines, but exactly one runs at a time; a worker gives up
// control only at yield points (verif hooks, file calls, visitor callbacks,
// operation boundaries), where a strategy decides who runs next.  A schedule
// is the list of decisions, so it is its own replay.
package sched

import (
	"bytes"
	"runtime"
	"strconv"
	"sync"
)

// Strategy picks the next worker among the runnable ones at a decision
// point.  cur is the worker that yielded (-1 at start, or if it finished).
type Strategy interface {
	Pick(step int, cur int, runnable []int, point string) int
}

type worker struct {
	id   int
	wake chan struct{}
	done bool
	fn   func()
}

// Decision records one decision point of an execution.
type Decision struct {
	Cur      int
	Runnable []int
	Chosen   int
	Point    string
}

type Sched struct {
	mu        sync.Mutex
	workers   []*worker
	byGoid    map[int64]*worker
	strat     Strategy
	step      int
	Decisions []Decision
	Trace     []uint32 // (worker<<24 | point-id) sequence, for hashing
	pointIDs  map[string]uint32
	allDone   chan struct{}
	PointHits map[string]int
	running   int
}

func New(strat Strategy) *Sched {
	return &Sched{byGoid: map[int64]*worker{}, strat: strat, pointIDs: map[string]uint32{}, allDone: make(chan struct{}), PointHits: map[string]int{}, running: -1}
}

// Goid returns the current goroutine's id.
func Goid() int64 {
	var buf [64]byte
	n := runtime.Stack(buf[:], false)
	b := buf[:n]
	b = bytes.TrimPrefix(b, []byte("goroutine "))
	if i := bytes.IndexByte(b, ' '); i > 0 {
		id, _ := strconv.ParseInt(string(b[:i]), 10, 64)
		return id
	}
	return -1
}

// Add registers a worker program.  Must be called before Run.
func (s *Sched) Add(fn func()) int {
	w := &worker{id: len(s.workers), wake: make(chan struct{}, 1), fn: fn}
	s.workers = append(s.workers, w)
	return w.id
}

// Run executes all workers to completion under the strategy.
func (s *Sched) Run() {
	if len(s.workers) == 0 {
		return
	}
	for _, w := range s.workers {
		w := w
		go func() {
			s.mu.Lock()
			s.byGoid[Goid()] = w
			s.mu.Unlock()
			<-w.wake // wait for the first turn
			w.fn()
			s.finish(w)
		}()
	}
	// wait until every goroutine has registered itself
	for {
		s.mu.Lock()
		n := len(s.byGoid)
		s.mu.Unlock()
		if n == len(s.workers) {
			break
		}
		runtime.Gosched()
	}
	s.mu.Lock()
	next := s.pick(-1, "start")
	s.running = next
	s.mu.Unlock()
	s.workers[next].wake <- struct{}{}
	<-s.allDone
}

func (s *Sched) runnable() []int {
	var r []int
	for _, w := range s.workers {
		if !w.done {
			r = append(r, w.id)
		}
	}
	return r
}

// pick must be called with mu held.
func (s *Sched) pick(cur int, point string) int {
	r := s.runnable()
	if len(r) == 0 {
		return -1
	}
	ch := r[0]
	if len(r) > 1 {
		ch = s.strat.Pick(s.step, cur, r, point)
		ok := false
		for _, x := range r {
			if x == ch {
				ok = true
			}
		}
		if !ok {
			ch = r[0]
		}
		s.Decisions = append(s.Decisions, Decision{Cur: cur, Runnable: r, Chosen: ch, Point: point})
		s.step++
	}
	id, ok := s.pointIDs[point]
	if !ok {
		id = uint32(len(s.pointIDs) + 1)
		s.pointIDs[point] = id
	}
	s.Trace = append(s.Trace, uint32(ch)<<24|id)
	return ch
}

// Yield is a yield point of the calling worker.  Goroutines that are not
// workers of this scheduler pass straight through.
func (s *Sched) Yield(point string) {
	s.mu.Lock()
	w := s.byGoid[Goid()]
	if w == nil || w.done || s.running != w.id {
		s.mu.Unlock()
		return
	}
	s.PointHits[point]++
	next := s.pick(w.id, point)
	if next == w.id || next < 0 {
		s.mu.Unlock()
		return
	}
	s.running = next
	s.mu.Unlock()
	s.workers[next].wake <- struct{}{}
	<-w.wake
}

func (s *Sched) finish(w *worker) {
	s.mu.Lock()
	w.done = true
	next := s.pick(-1, "exit")
	s.running = next
	s.mu.Unlock()
	if next < 0 {
		close(s.allDone)
		return
	}
	s.workers[next].wake <- struct{}{}
}

// Hash identifies the schedule (the (worker, point) sequence).
func (s *Sched) Hash() uint64 {
	h := uint64(1469598103934665603)
	for _, t := range s.Trace {
		h ^= uint64(t)
		h *= 1099511628211
	}
	return h
}

// ---------------------------------------------------------------------------
// strategies

// Random picks uniformly with a seeded generator; Stick is the percentage
// chance of simply continuing the current worker (longer runs between switches).
type Random struct {
	Next  func(n int) int
	Stick int
}

func (r *Random) Pick(step, cur int, runnable []int, point string) int {
	if cur >= 0 && r.Stick > 0 && r.Next(100) < r.Stick {
		for _, x := range runnable {
			if x == cur {
				return cur
			}
		}
	}
	return runnable[r.Next(len(runnable))]
}

// PCT: random priorities per worker, d priority change points at random steps.
type PCT struct {
	Prio    []int       // priority per worker (higher runs first)
	Changes map[int]int // step -> new (low) priority for the worker running then
}

func (p *PCT) Pick(step, cur int, runnable []int, point string) int {
	if lp, ok := p.Changes[step]; ok && cur >= 0 {
		p.Prio[cur] = lp
	}
	best := runnable[0]
	for _, x := range runnable {
		if p.Prio[x] > p.Prio[best] {
			best = x
		}
	}
	return best
}

// Prefix forces the first len(Choices) decisions and then runs
// non-preemptively (keeps the current worker; lowest id when it finished).
type Prefix struct {
	Choices []int
}

func (p *Prefix) Pick(step, cur int, runnable []int, point string) int {
	if step < len(p.Choices) {
		return p.Choices[step]
	}
	return DefaultChoice(cur, runnable)
}

// DefaultChoice is the non-preemptive policy.
func DefaultChoice(cur int, runnable []int) int {
	for _, x := range runnable {
		if x == cur {
			return cur
		}
	}
	return runnable[0]
}
