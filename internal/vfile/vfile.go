// Package vfile is an instrumented, concurrency-safe, in-memory
// implementation of gkvlite.StoreFile: it logs every call, evaluates the
// append-only (C09) and lazy-read (C19) rules online, injects faults and
// rebuilds crash images from its write log.
package vfile

import (
	"errors"
	"fmt"
	"io"
	"os"
	"runtime"
	"strings"
	"sync"
	"time"

	"verif/internal/decoder"
)

type Kind uint8

const (
	KRead Kind = iota + 1
	KWrite
	KStat
	KTrunc
)

func (k Kind) String() string {
	switch k {
	case KRead:
		return "ReadAt"
	case KWrite:
		return "WriteAt"
	case KStat:
		return "Stat"
	case KTrunc:
		return "Truncate"
	}
	return "?"
}

// Call is one logged StoreFile call.
type Call struct {
	Seq  int
	Kind Kind
	Off  int64 // offset (read/write) or size (truncate)
	Len  int
	N    int // bytes transferred
	Err  bool
	Tag  string
	Data []byte // writes only (bytes that were asked to be written)
}

// ErrInjected is the error returned by injected faults.
var ErrInjected = errors.New("vfile: injected I/O fault")

// Fault describes a single injected failure: the Nth call (1-based, counted
// over all calls issued while armed) fails.  Partial >= 0 means that this
// many bytes are transferred before the error is returned.
type Fault struct {
	Nth     int
	Partial int
	// EOF makes a faulted ReadAt return io.EOF (a short read at "end of file") instead of the injected error.
	EOF bool
	// results
	Fired     bool
	FiredKind Kind
	FiredLen  int
	// FiredIn names the no-error-result API (EvictSomeItems) the faulted call was issued from, if any.
	FiredIn string
}

type Range struct{ Lo, Hi int64 } // [Lo,Hi)

// File is the instrumented StoreFile.
type File struct {
	mu   sync.Mutex
	data []byte
	seq  int

	Name string

	// KeepLog records calls (with write payloads) in Log.
	KeepLog bool
	Log     []Call

	// Yield, when non-nil, is called before each call is executed (outside
	// the file's own lock) - used by the deterministic scheduler and for gates.
	Yield func(k Kind)
	// YieldAfter, when non-nil, is called after a ReadAt/WriteAt was executed, before it returns.
	YieldAfter func(k Kind)

	tag      string
	tagFn    func() string
	fault    *Fault
	armedCnt int

	// counters
	NReads, NWrites, NStats, NTruncs int64
	BytesRead, BytesWritten          int64
	TagCalls                         map[string]int64

	// --- C09 monitor
	durableEnd int64
	rootEnds   []int64         // ends of complete root records currently in the file, ascending
	WriteTags  map[string]bool // tags under which WriteAt is legitimate
	TruncTags  map[string]bool
	// --- C19 monitor
	TrackValues bool
	valRanges   []Range
	KeyOnlyTags map[string]bool
	OpenTag     string
	openRoot    Range // root record that an open may read
	openReads   int

	Violations []string // monitor violations, in order (signature: detail)
}

// New returns an empty file.
func New(name string) *File {
	return &File{Name: name, TagCalls: map[string]int64{},
		WriteTags: map[string]bool{"Flush": true, "CollWrite": true, "CopyTo(dst)": true},
		TruncTags: map[string]bool{"FlushRevert": true},
	}
}

// FromBytes returns a file with the given initial content.  The durable end
// is derived with the independent decoder.
func FromBytes(name string, b []byte) *File {
	f := New(name)
	f.data = append([]byte{}, b...)
	f.rescanRoots()
	return f
}

func (f *File) rescanRoots() {
	f.rootEnds = nil
	lim := int64(len(f.data))
	for {
		_, end, _, ok := decoder.FindLastRoot(f.data, lim)
		if !ok {
			break
		}
		f.rootEnds = append([]int64{end}, f.rootEnds...)
		lim = end - 1
	}
	f.durableEnd = 0
	if n := len(f.rootEnds); n > 0 {
		f.durableEnd = f.rootEnds[n-1]
	}
}

// readOnlyTag reports whether the API call in progress is one of the entry points the property
// says never write: everything through a snapshot, opening, lookups, visits, iterators, eviction,
// snapshotting, serving as a CopyTo source, introspection - and untagged calls.  (Mutations and
// collection management are not in that list: for them only the append-only rule applies.)
func (f *File) readOnlyTag(tag string) bool {
	if f.WriteTags[tag] {
		return false
	}
	switch tag {
	case "Set", "Delete", "SetCollection", "RemoveCollection", "Close", "FlushRevert":
		return false
	}
	return true
}

// SetTag sets the API-call tag attached to subsequent calls.
func (f *File) SetTag(t string) {
	f.mu.Lock()
	f.tag = t
	if t == f.OpenTag && t != "" {
		f.openReads = 0
		f.openRoot = Range{}
		n := int64(len(f.data))
		if s, e, _, ok := decoder.FindLastRoot(f.data, n); ok && e == n {
			f.openRoot = Range{s, e}
		}
	}
	f.mu.Unlock()
}

// SetTagFunc installs a function computing the tag (for concurrent use).
func (f *File) SetTagFunc(fn func() string) { f.mu.Lock(); f.tagFn = fn; f.mu.Unlock() }

func (f *File) curTag() string {
	if f.tagFn != nil {
		return f.tagFn()
	}
	return f.tag
}

// Arm installs a fault; the call counter restarts at 0.
func (f *File) Arm(ft *Fault) { f.mu.Lock(); f.fault = ft; f.armedCnt = 0; f.mu.Unlock() }

// Disarm removes the fault and returns the number of calls seen while armed.
func (f *File) Disarm() int {
	f.mu.Lock()
	defer f.mu.Unlock()
	f.fault = nil
	return f.armedCnt
}

// Seq returns the number of calls so far.
func (f *File) Seq() int { f.mu.Lock(); defer f.mu.Unlock(); return f.seq }

// Bytes returns a copy of the current content.
func (f *File) Bytes() []byte {
	f.mu.Lock()
	defer f.mu.Unlock()
	return append([]byte{}, f.data...)
}

func (f *File) Size() int64 { f.mu.Lock(); defer f.mu.Unlock(); return int64(len(f.data)) }

// DurableEnd is the end of the last complete root record in the file.
func (f *File) DurableEnd() int64 { f.mu.Lock(); defer f.mu.Unlock(); return f.durableEnd }

func (f *File) violate(sig, detail string) {
	if len(f.Violations) < 20 {
		f.Violations = append(f.Violations, sig+": "+detail)
	}
}

// shouldFail must be called with mu held.
func (f *File) shouldFail(k Kind, n int) (fail bool, partial int) {
	if f.fault == nil {
		return false, 0
	}
	f.armedCnt++
	if f.fault.Fired || f.armedCnt != f.fault.Nth {
		return false, 0
	}
	f.fault.Fired = true
	f.fault.FiredKind = k
	f.fault.FiredLen = n
	var pcs [48]uintptr
	fr := runtime.CallersFrames(pcs[:runtime.Callers(2, pcs[:])])
	for {
		frame, more := fr.Next()
		if strings.HasSuffix(frame.Function, ".EvictSomeItems") {
			f.fault.FiredIn = "EvictSomeItems"
		}
		if !more {
			break
		}
	}
	p := f.fault.Partial
	if p < 0 {
		p = 0
	}
	if p > n {
		p = n
	}
	return true, p
}

func (f *File) record(c Call) {
	f.seq++
	c.Seq = f.seq
	f.TagCalls[c.Tag]++
	if f.KeepLog {
		f.Log = append(f.Log, c)
	}
}

func (f *File) ReadAt(p []byte, off int64) (int, error) {
	if y := f.Yield; y != nil {
		y(KRead)
	}
	n, err := f.readAt(p, off)
	if y := f.YieldAfter; y != nil {
		y(KRead) // the caller may be descheduled between the completion of the call and its use of the data
	}
	return n, err
}

func (f *File) readAt(p []byte, off int64) (int, error) {
	f.mu.Lock()
	defer f.mu.Unlock()
	tag := f.curTag()
	f.NReads++
	// C19 monitors (evaluated on the request, before it is served)
	if f.OpenTag != "" && tag == f.OpenTag {
		f.openReads++
		if f.openRoot.Hi > 0 {
			if off < f.openRoot.Lo || off+int64(len(p)) > f.openRoot.Hi {
				f.violate("C19/open-reads-outside-root",
					fmt.Sprintf("open read [%d,+%d) outside last root record [%d,%d)", off, len(p), f.openRoot.Lo, f.openRoot.Hi))
			}
			if f.openReads > 4 {
				f.violate("C19/open-too-many-reads", fmt.Sprintf("%d reads during open", f.openReads))
			}
		}
	}
	if f.TrackValues && f.KeyOnlyTags[tag] && len(p) > 0 {
		lo, hi := off, off+int64(len(p))
		for _, r := range f.valRanges {
			if lo < r.Hi && r.Lo < hi {
				f.violate("C19/key-only-op-read-value/"+tag,
					fmt.Sprintf("read [%d,%d) during %s intersects value bytes [%d,%d)", lo, hi, tag, r.Lo, r.Hi))
				break
			}
		}
	}
	fail, part := f.shouldFail(KRead, len(p))
	c := Call{Kind: KRead, Off: off, Len: len(p), Tag: tag}
	if fail {
		if part > 0 && off >= 0 && off < int64(len(f.data)) {
			c.N = copy(p[:part], f.data[off:])
		}
		c.Err = true
		f.record(c)
		if f.fault != nil && f.fault.EOF {
			return c.N, io.EOF
		}
		return c.N, ErrInjected
	}
	if off < 0 || off > int64(len(f.data)) {
		c.Err = true
		f.record(c)
		return 0, fmt.Errorf("vfile: read at %d beyond size %d: EOF", off, len(f.data))
	}
	n := copy(p, f.data[off:])
	c.N = n
	f.BytesRead += int64(n)
	if n < len(p) {
		c.Err = true
		f.record(c)
		return n, errEOF
	}
	f.record(c)
	return n, nil
}

var errEOF = io.EOF

func (f *File) WriteAt(p []byte, off int64) (int, error) {
	if y := f.Yield; y != nil {
		y(KWrite)
	}
	n, err := f.writeAt(p, off)
	if y := f.YieldAfter; y != nil {
		y(KWrite)
	}
	return n, err
}

func (f *File) writeAt(p []byte, off int64) (int, error) {
	f.mu.Lock()
	defer f.mu.Unlock()
	tag := f.curTag()
	f.NWrites++
	// C09 monitor
	if f.readOnlyTag(tag) {
		f.violate("C09/write-from-non-writing-call/"+tag,
			fmt.Sprintf("WriteAt(off=%d,len=%d) issued during %q", off, len(p), tag))
	}
	if off < f.durableEnd {
		f.violate("C09/write-below-durable-end/"+tag,
			fmt.Sprintf("WriteAt(off=%d,len=%d) starts below the end %d of the last durable root record", off, len(p), f.durableEnd))
	}
	fail, part := f.shouldFail(KWrite, len(p))
	c := Call{Kind: KWrite, Off: off, Len: len(p), Tag: tag}
	if f.KeepLog {
		c.Data = append([]byte{}, p...)
	}
	if off < 0 {
		c.Err = true
		f.record(c)
		return 0, errors.New("vfile: negative offset")
	}
	n := len(p)
	if fail {
		n = part
	}
	if need := off + int64(n); n > 0 && need > int64(len(f.data)) {
		f.data = append(f.data, make([]byte, need-int64(len(f.data)))...)
	}
	copy(f.data[off:], p[:n])
	c.N = n
	f.BytesWritten += int64(n)
	if fail {
		c.Err = true
		f.record(c)
		return n, ErrInjected
	}
	f.record(c)
	// a commit: a complete root record now ends exactly where this write ended (however many
	// writes it took to produce it)
	if end := off + int64(len(p)); len(p) > 0 && end <= int64(len(f.data)) && decoder.RootEndsAt(f.data, end) {
		f.rootEnds = append(f.rootEnds, end)
		f.durableEnd = end
		if f.TrackValues {
			f.addValueRanges(end)
		}
	}
	return n, nil
}

func (f *File) addValueRanges(end int64) {
	img, err := decoder.DecodeAt(f.data, end, func(string) decoder.Compare { return func(a, b []byte) int { return -1 } })
	if err != nil {
		return
	}
	have := map[Range]bool{}
	for _, r := range f.valRanges {
		have[r] = true
	}
	for _, c := range img.Colls {
		for _, it := range c.Items {
			if len(it.Val) == 0 {
				continue
			}
			r := Range{it.ValOff, it.ValOff + int64(len(it.Val))}
			if !have[r] {
				have[r] = true
				f.valRanges = append(f.valRanges, r)
			}
		}
	}
}

// RecomputeValueRanges derives the value ranges from every root record in
// the current image (used after FromBytes).
func (f *File) RecomputeValueRanges() {
	f.mu.Lock()
	defer f.mu.Unlock()
	f.valRanges = nil
	for _, e := range f.rootEnds {
		f.addValueRanges(e)
	}
}

func (f *File) NumValueRanges() int { f.mu.Lock(); defer f.mu.Unlock(); return len(f.valRanges) }

type finfo struct {
	name string
	size int64
}

func (i finfo) Name() string       { return i.name }
func (i finfo) Size() int64        { return i.size }
func (i finfo) Mode() os.FileMode  { return 0644 }
func (i finfo) ModTime() time.Time { return time.Time{} }
func (i finfo) IsDir() bool        { return false }
func (i finfo) Sys() interface{}   { return nil }

func (f *File) Stat() (os.FileInfo, error) {
	if y := f.Yield; y != nil {
		y(KStat)
	}
	f.mu.Lock()
	defer f.mu.Unlock()
	f.NStats++
	fail, _ := f.shouldFail(KStat, 0)
	c := Call{Kind: KStat, Tag: f.curTag(), Err: fail}
	f.record(c)
	if fail {
		return nil, ErrInjected
	}
	return finfo{f.Name, int64(len(f.data))}, nil
}

func (f *File) Truncate(size int64) error {
	if y := f.Yield; y != nil {
		y(KTrunc)
	}
	f.mu.Lock()
	defer f.mu.Unlock()
	tag := f.curTag()
	f.NTruncs++
	if !f.TruncTags[tag] {
		f.violate("C09/truncate-from-non-reverting-call/"+tag,
			fmt.Sprintf("Truncate(%d) issued during %q", size, tag))
	}
	okSize := size == 0
	for _, e := range f.rootEnds {
		if e == size {
			okSize = true
		}
	}
	if !okSize && size > 0 && size <= int64(len(f.data)) && decoder.RootEndsAt(f.data, size) {
		okSize = true
	}
	if !okSize {
		f.violate("C09/truncate-not-at-root-end/"+tag,
			fmt.Sprintf("Truncate(%d): not 0 and not the end of a root record (%v), file size %d", size, f.rootEnds, len(f.data)))
	}
	fail, _ := f.shouldFail(KTrunc, 0)
	c := Call{Kind: KTrunc, Off: size, Tag: tag, Err: fail}
	f.record(c)
	if fail {
		return ErrInjected
	}
	if size < 0 {
		return errors.New("vfile: negative size")
	}
	if size < int64(len(f.data)) {
		f.data = f.data[:size]
	} else if size > int64(len(f.data)) {
		f.data = append(f.data, make([]byte, size-int64(len(f.data)))...)
	}
	keep := f.rootEnds[:0]
	for _, e := range f.rootEnds {
		if e <= size {
			keep = append(keep, e)
		}
	}
	f.rootEnds = keep
	f.durableEnd = 0
	if n := len(f.rootEnds); n > 0 {
		f.durableEnd = f.rootEnds[n-1]
	}
	if f.TrackValues {
		kept := f.valRanges[:0]
		for _, r := range f.valRanges {
			if r.Hi <= size {
				kept = append(kept, r)
			}
		}
		f.valRanges = kept
	}
	return nil
}

// ---------------------------------------------------------------------------
// Crash images

// WriteLog returns the logged write and truncate calls (KeepLog must be on).
func (f *File) WriteLog() []Call {
	f.mu.Lock()
	defer f.mu.Unlock()
	var res []Call
	for _, c := range f.Log {
		if c.Kind == KWrite || c.Kind == KTrunc {
			res = append(res, c)
		}
	}
	return res
}

// Replayer rebuilds file images from a write log incrementally.
type Replayer struct {
	Img []byte
}

// Apply applies the first n bytes of write c (or the truncate c).
func (r *Replayer) Apply(c Call, n int) {
	switch c.Kind {
	case KWrite:
		if n > len(c.Data) {
			n = len(c.Data)
		}
		if n == 0 {
			return
		}
		if need := c.Off + int64(n); need > int64(len(r.Img)) {
			r.Img = append(r.Img, make([]byte, need-int64(len(r.Img)))...)
		}
		copy(r.Img[c.Off:], c.Data[:n])
	case KTrunc:
		if c.Off < int64(len(r.Img)) {
			r.Img = r.Img[:c.Off]
		} else {
			r.Img = append(r.Img, make([]byte, c.Off-int64(len(r.Img)))...)
		}
	}
}
