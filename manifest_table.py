claim("C01", "exploration",
      "Lock-step comparison of every public result with a reference sorted map over thousands of seeded histories (overwrites at lower/equal/higher priority, deletes, invalid items, several collections, file-backed and memory-only) plus systematic enumeration of every placement of Flush/Evict/Reopen in short base histories; a full read-back of every handle exposes collateral damage at the step that caused it. Exploration is the right level: the input space is unbounded, the oracle is exact.",
      "Trusted: the reference model (maps + sort), the in-memory StoreFile, Go runtime. Single goroutine; items not modified after SetItem.",
      "runtime monitoring: differential lock-step execution against an executable reference model", "5/C01")

claim("C08", "exploration",
      "Complete grid (flushes 0..6 x pending changes x reopen-before-revert x 1..f+2 consecutive reverts, i.e. always past the first flush) over random contents plus random multi-collection histories; after every revert the store, the file length, a second store opened on a copy of the file and the independent decoder are compared with the model's stack of flushed states; termination is decided by a logical bound on root-scan iterations counted through a hook, not by a clock.",
      "Trusted: reference model, in-memory StoreFile, independent decoder. Snapshots older than a revert of the original are closed first (README). Collection.Write()/failed Flush between Flush and FlushRevert is exercised under C07, not here.",
      "runtime monitoring: model-stack comparison after every revert + hook-counted logical termination bound", "5/C08")
claim("C16", "exploration",
      "Every collection size in a contiguous range (0..130 quick, 0..600 thorough) plus the sizes around every multiple of the maximum block count, three key shapes, memory-only and flushed+evicted+reopened stores: Len and the multiset of keys delivered by VisitItemsAscendBlockEx (8 block manglers, both value modes) and VisitItemsRandom must be each key exactly once. Exhaustive in n over the stated range, which is where the block arithmetic can go wrong.",
      "Trusted: multiset comparison against the inserted key set. Block manglers are permutations.",
      "runtime monitoring: exact-cover (multiset) oracle over an exhaustive size range", "5/C16")

claim("C04", "exploration",
      "Per-handle models for the original and every open snapshot, completely re-read after EVERY step of histories that interleave original-side operations (mutations, flush, evict, collection replace/remove, Close, suspended readers) with snapshot-side ones (snapshot of snapshot, reads, FlushRevert, refused mutations, Close), plus complete enumeration of the 4! release orders of {3 snapshots, original} on varied base histories, with node-reuse forcing and the hook walk after each release. The file monitor rejects any write/truncate issued under a snapshot operation.",
      "Trusted: per-handle reference models, hook walk (side-effect free), in-memory StoreFile. Snapshots older than a FlushRevert of the original are closed first.",
      "runtime monitoring: per-handle model read-back after every step + release-order enumeration + structural reachability hook", "5/C04")
claim("C10", "exploration",
      "Two to three stores sharing the process-global free lists; after every step of every store: all freed nodes are forcibly reused with foreign data, then every open handle of every store is compared with its model, and the hook walk asserts directly that no node reachable from a live version is on a free list, zeroed or carries the reclaim mark of a version that may die first. The structural assertion turns 'silent until reuse' into an immediate verdict.",
      "Trusted: hook walk + free-list dump (taken under the allocator's own locks), per-handle models. Suspended readers are blocked goroutines (no true parallelism here; that is C05).",
      "runtime monitoring: invariant at hook (reachable vs freed/marked) + reuse-forced differential read-back", "5/C10")
claim("C12", "exploration",
      "Histories dense in SetCollection (new and existing names), RemoveCollection (incl. remove-then-recreate), GetCollection and mutations through the returned handles while nodes are cached, with flushes, re-opens and snapshots anywhere; names incl. empty, JSON-escaped, multi-byte and magic strings; custom comparators. Names, all handles and snapshots are checked after every step; durability only-at-Flush is checked by opening a second store on a copy of the file after each flush and at re-opens.",
      "Trusted: model name map, reopen comparison, decoder. Names are valid UTF-8; a replacement comparator orders existing keys identically.",
      "runtime monitoring: differential lock-step execution against a model of the collection map", "5/C12")
claim("C15", "exploration",
      "ItemAlloc/ItemAddRef/ItemDecRef wired to a mutex-protected online monitor following the documented protocol: never below zero, positive when handed out, positive while reachable from an open handle (hook walk after every step), zero for every item after the store, its snapshots and abandoned stores are closed in seed-chosen orders. Outstanding references are attributed to the API operation that acquired them, which makes distinct leaks distinguishable.",
      "Trusted: the monitor's protocol model (alloc=1, app drops its ref after SetItem, releases lookups once). One recorded known finding (loads through a superseded version).",
      "runtime monitoring: online reference-count monitor in the store callbacks + end-of-life conservation check", "5/C15")

claim("C07", "fault_enumeration",
      "Two-pass fault enumeration: pass 1 records every StoreFile call of every operation of a seeded history; pass 2 re-executes the history once per fault point (every call k of every operation, plus every destination-file call of CopyTo), failing exactly that call outright, short (reads) or torn after j bytes (writes; incl. the full-length-but-error case), and then checks error return, no panic, logical termination bound, structural reachability (stale reclaim marks), the file image re-opening to the last durable state, and the behaviour of the remaining history plus a fixed epilogue (mutations, retried Flush, re-open) against the model in which the failed call had no effect. Enumerating single fault points is the natural level: the property quantifies over 'every individual call'.",
      "Trusted: the fault-injecting StoreFile, the reference model, the decoder-free reopen comparison. One fault per execution. Calls of byte-by-byte backward scans beyond the first/last 12 are sampled (24 evenly spread). EvictSomeItems/Exist have no error result (Exist's wrong answer is a recorded known finding).",
      "runtime monitoring: single-fault enumeration over recorded StoreFile calls + differential check after the fault clears", "5/C07")

claim("C02", "exploration",
      "After every successful Flush, after each of the next 6 steps, at every re-open and at the end of seeded multi-collection histories (Flush density 5-30%, collection create/remove, Collection.Write, evictions, repeated re-open-and-continue) a second store is opened on a copy of the file image and compared completely with the model's state at the last successful Flush; the same image is parsed by the independent decoder. Unflushed work must never be visible.",
      "Trusted: reference model, second-store comparison, independent decoder. Failed flushes are C07's; names are valid UTF-8.",
      "runtime monitoring: reopen-and-compare oracle at every durability point", "5/C02")
claim("C03", "fault_enumeration",
      "Every crash image of seeded magic-laden histories is rebuilt from the StoreFile write log - every log prefix and, for the write in flight, every byte length - and opened with NewStore: it must show exactly the last Flush all of whose writes are in the image (or empty / no-roots if none), within the logical scan bound and without panic. A subset gets junk tails (random, zeros, lone doubled end marker, plausible-but-inconsistent trailers, copies/tails of older root records, a prefix of the next root record), and a subset of recovered stores mutates, flushes and re-opens again. Enumeration of crash points is exactly the property's quantifier.",
      "Crash model = the property's: writes land in issue order, the write in flight is cut at a byte boundary. Junk tails the decoder accepts as complete root records are discarded (excluded by the statement).",
      "runtime monitoring: exhaustive byte-granular crash-image enumeration from a recorded write log", "5/C03")
claim("C06", "exploration",
      "For contents of 0..40 items under three comparators and four cache states, targets are derived from the contents (every key, successor, predecessor, below/above all, empty, nil) and all six visiting APIs run in both value modes against the model's range; every early-stop position is tried; Ex depths are compared with the node's true depth taken from the hook walk + decoder and with the canonical treap depth.",
      "Trusted: model range queries, hook walk for true depth. Visitor items are read inside the callback only.",
      "runtime monitoring: differential range oracle over content-derived targets x APIs x stops x cache states", "5/C06")
claim("C09", "exploration",
      "An online monitor inside the instrumented StoreFile judges every WriteAt/Truncate with the API call in progress as tag (append-only above the last durable root record; writes only from Flush/Collection.Write/CopyTo-destination; truncates only from FlushRevert of the writable store to a root-record end or 0). It is active in every check; the dedicated check adds histories over all operations and sweeps of every read-only entry point in four cache states that must leave the file untouched and byte-identical.",
      "'All call paths' is covered only as far as executed (entry point x cache state matrix in the evidence). A root record whose write reported an error is not durable.",
      "runtime monitoring: online assertion on every file write/truncate correlated with the API call in progress", "5/C09")
claim("C11", "exploration",
      "Sources in five states (dirty, flushed, evicted, re-opened, memory-only; 0-4 collections incl. empty, custom comparators, files with superseded item versions) are copied from the store and from a snapshot for every flushEvery in {-1,0,1,2,3,n-1,n,n+1,10n}; the returned store, the re-opened destination, the decoded destination, the destination write log (every item record live, count = live items), the source write log and the source contents are all checked.",
      "Trusted: model, decoder, write-log classification of item records (harness values never mimic item headers).",
      "runtime monitoring: differential + write-log conservation (item records written = live items)", "5/C11")
claim("C13", "exploration",
      "Exhaustive sub-space: every insertion order x every priority ranking for n <= 5 (quick) / 6 (thorough) keys, each with every single delete/re-insert, flush, evict, re-open and further mutation; after every step the hook walk completed by the decoder recomputes all aggregates, checks key order, heap order and the canonical (unique treap) depth of every item, the same shape oracle runs through the public API alone, and the decoder validates every flushed image. Random part: up to 200 items with deletes, overwrites at lower/equal/higher priority, ties, custom comparators, value-length callbacks.",
      "Heap/shape clauses are off from the first lowering overwrite until the collection is empty (as the statement allows); shape clause off under tied priorities.",
      "runtime monitoring: per-node invariant walk at every quiescent point, exhaustive over small insertion orders x rankings", "5/C13")
claim("C14", "exploration",
      "An independent decoder (standard library only) parses the image after every Flush and every CopyTo destination of seeded histories (keys 1..65535 bytes, values 0..1 MB, 0-4 collections, exotic names, all callback configurations) and must accept every structural rule and reproduce the model's flushed state; the last write of each Flush must be one root record. Reader side: files written by the harness's own independent encoder (other tree shapes, 1-3 appended flushes) must be read back exactly by gkvlite and then extended.",
      "The decoder's reading of the format description is the specification. Decoder independence is asserted by its import list.",
      "runtime monitoring: independent decoder as offline checker of every produced file + independent encoder for reader-side conformance", "5/C14")
claim("C17", "exploration",
      "All 64 subsets of six neutral callback groups are enumerated for every history; under each subset the C01, C02, C06 and C14 oracles run, and the execution is compared with the empty configuration: identical operation/result trace, eviction counts and byte-identical file. A subset whose callbacks were not all invoked is not counted as non-trivial.",
      "The callbacks are generated by the harness and are neutral by construction.",
      "runtime monitoring: configuration enumeration x differential oracles + cross-configuration equality", "5/C17")
claim("C19", "exploration",
      "An online monitor inside the instrumented StoreFile judges every ReadAt with the API call in progress: during NewStore reads must lie inside the final root record (and be at most 4), after open the hook walk must find nothing cached, and opening files of 10/100/1000 items must cost the same number of calls; during key-only operations no read may intersect the value bytes of any item reachable from any root record ever completed (ranges from the independent decoder).",
      "Value ranges come from the decoder run on completed root records; zero-length values have no range.",
      "runtime monitoring: online assertion on every file read against decoder-derived value byte ranges", "5/C19")
