claim("C01", "exploration",
      "Lock-step comparison of every public result with a reference sorted map over thousands of seeded histories (overwrites at lower/equal/higher priority, deletes, invalid items, several collections, file-backed and memory-only) plus systematic enumeration of every placement of Flush/Evict/Reopen in short base histories; a full read-back of every handle exposes collateral damage at the step that caused it. Exploration is the right level: the input space is unbounded, the oracle is exact.",
      "Trusted: the reference model (maps + sort), the in-memory StoreFile, Go runtime. Single goroutine; items not modified after SetItem.",
      "runtime monitoring: differential lock-step execution against an executable reference model", "5/C01")
