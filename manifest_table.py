claim("C01", "exploration",
      "Lock-step comparison of every public result with a reference sorted map over thousands of seeded histories (overwrites at lower/equal/higher priority, deletes, invalid items, several collections, file-backed and memory-only) plus systematic enumeration of every placement of Flush/Evict/Reopen in short base histories; a full read-back of every handle exposes collateral damage at the step that caused it. Exploration is the right level: the input space is unbounded, the oracle is exact.",
      "Trusted: the reference model (maps + sort), the in-memory StoreFile, Go runtime. Single goroutine; items not modified after SetItem.",
      "runtime monitoring: differential lock-step execution against an executable reference model", "5/C01")

claim("C08", "exploration",
      "Complete grid (flushes 0..6 x pending changes x reopen-before-revert x 1..f+2 consecutive reverts, i.e. always past the first flush) over random contents plus random multi-collection histories; after every revert the store, the file length, a second store opened on a copy of the file and the independent decoder are compared with the model's stack of flushed states; termination is decided by a logical bound on root-scan iterations counted through a hook, not by a clock.",
      "Trusted: reference model, in-memory StoreFile, independent decoder. Snapshots older than a revert of the original are closed first (README). Collection.Write()/failed Flush between Flush and FlushRevert is exercised under C07, not here.",
      "runtime monitoring: model-stack comparison after every revert + hook-counted logical termination bound", "5/C08")
claim("C16", "exploration",
      "Every collection size in a contiguous range (0..130 quick, 0..600 thorough) plus the sizes around every multiple of the maximum block count, three key shapes, memory-only and flushed+evicted+reopened stores: Len and the multiset of keys delivered by VisitItemsAscendBlockEx (8 block manglers, both value modes) and VisitItemsRandom must be each key exactly once. Exhaustive in n over the stated range, which is where the block arithmetic can go wrong.",
      "Trusted: multiset comparison against the inserted key set. Block manglers are permutations.",
      "runtime monitoring: exact-cover (multiset) oracle over an exhaustive size range", "5/C16")

claim("C04", "exploration",
      "Per-handle models for the original and every open snapshot, completely re-read after EVERY step of histories that interleave original-side operations (mutations, flush, evict, collection replace/remove, Close, suspended readers) with snapshot-side ones (snapshot of snapshot, reads, FlushRevert, refused mutations, Close), plus complete enumeration of the 4! release orders of {3 snapshots, original} on varied base histories, with node-reuse forcing and the hook walk after each release. The file monitor rejects any write/truncate issued under a snapshot operation.",
      "Trusted: per-handle reference models, hook walk (side-effect free), in-memory StoreFile. Snapshots older than a FlushRevert of the original are closed first.",
      "runtime monitoring: per-handle model read-back after every step + release-order enumeration + structural reachability hook", "5/C04")
claim("C10", "exploration",
      "Two to three stores sharing the process-global free lists; after every step of every store: all freed nodes are forcibly reused with foreign data, then every open handle of every store is compared with its model, and the hook walk asserts directly that no node reachable from a live version is on a free list, zeroed or carries the reclaim mark of a version that may die first. The structural assertion turns 'silent until reuse' into an immediate verdict.",
      "Trusted: hook walk + free-list dump (taken under the allocator's own locks), per-handle models. Suspended readers are blocked goroutines (no true parallelism here; that is C05).",
      "runtime monitoring: invariant at hook (reachable vs freed/marked) + reuse-forced differential read-back", "5/C10")
claim("C12", "exploration",
      "Histories dense in SetCollection (new and existing names), RemoveCollection (incl. remove-then-recreate), GetCollection and mutations through the returned handles while nodes are cached, with flushes, re-opens and snapshots anywhere; names incl. empty, JSON-escaped, multi-byte and magic strings; custom comparators. Names, all handles and snapshots are checked after every step; durability only-at-Flush is checked by opening a second store on a copy of the file after each flush and at re-opens.",
      "Trusted: model name map, reopen comparison, decoder. Names are valid UTF-8; a replacement comparator orders existing keys identically.",
      "runtime monitoring: differential lock-step execution against a model of the collection map", "5/C12")
claim("C15", "exploration",
      "ItemAlloc/ItemAddRef/ItemDecRef wired to a mutex-protected online monitor following the documented protocol: never below zero, positive when handed out, positive while reachable from an open handle (hook walk after every step), zero for every item after the store, its snapshots and abandoned stores are closed in seed-chosen orders. Outstanding references are attributed to the API operation that acquired them, which makes distinct leaks distinguishable.",
      "Trusted: the monitor's protocol model (alloc=1, app drops its ref after SetItem, releases lookups once). One recorded known finding (loads through a superseded version).",
      "runtime monitoring: online reference-count monitor in the store callbacks + end-of-life conservation check", "5/C15")

claim("C07", "fault_enumeration",
      "Two-pass fault enumeration: pass 1 records every StoreFile call of every operation of a seeded history; pass 2 re-executes the history once per fault point (every call k of every operation, plus every destination-file call of CopyTo), failing exactly that call outright, short (reads) or torn after j bytes (writes; incl. the full-length-but-error case), and then checks error return, no panic, logical termination bound, structural reachability (stale reclaim marks), the file image re-opening to the last durable state, and the behaviour of the remaining history plus a fixed epilogue (mutations, retried Flush, re-open) against the model in which the failed call had no effect. Enumerating single fault points is the natural level: the property quantifies over 'every individual call'.",
      "Trusted: the fault-injecting StoreFile, the reference model, the decoder-free reopen comparison. One fault per execution. Calls of byte-by-byte backward scans beyond the first/last 12 are sampled (24 evenly spread). EvictSomeItems/Exist have no error result (Exist's wrong answer is a recorded known finding).",
      "runtime monitoring: single-fault enumeration over recorded StoreFile calls + differential check after the fault clears", "5/C07")
