claim("C01", "exploration",
      "Lock-step comparison of every public result with a reference sorted map over thousands of seeded histories (overwrites at lower/equal/higher priority, deletes, invalid items, several collections, file-backed and memory-only) plus systematic enumeration of every placement of Flush/Evict/Reopen in short base histories; a full read-back of every handle exposes collateral damage at the step that caused it. Exploration is the right level: the input space is unbounded, the oracle is exact.",
      "Trusted: the reference model (maps + sort), the in-memory StoreFile, Go runtime. Single goroutine; items not modified after SetItem.",
      "runtime monitoring: differential lock-step execution against an executable reference model", "5/C01")

claim("C08", "exploration",
      "Complete grid (flushes 0..6 x pending changes x reopen-before-revert x 1..f+2 consecutive reverts, i.e. always past the first flush) over random contents plus random multi-collection histories; after every revert the store, the file length, a second store opened on a copy of the file and the independent decoder are compared with the model's stack of flushed states; termination is decided by a logical bound on root-scan iterations counted through a hook, not by a clock.",
      "Trusted: reference model, in-memory StoreFile, independent decoder. Snapshots older than a revert of the original are closed first (README). Collection.Write()/failed Flush between Flush and FlushRevert is exercised under C07, not here.",
      "runtime monitoring: model-stack comparison after every revert + hook-counted logical termination bound", "5/C08")
claim("C16", "exploration",
      "Every collection size in a contiguous range (0..130 quick, 0..600 thorough) plus the sizes around every multiple of the maximum block count, three key shapes, memory-only and flushed+evicted+reopened stores: Len and the multiset of keys delivered by VisitItemsAscendBlockEx (8 block manglers, both value modes) and VisitItemsRandom must be each key exactly once. Exhaustive in n over the stated range, which is where the block arithmetic can go wrong.",
      "Trusted: multiset comparison against the inserted key set. Block manglers are permutations.",
      "runtime monitoring: exact-cover (multiset) oracle over an exhaustive size range", "5/C16")
