#!/bin/bash
# Re-verifies every seeded change listed in seeded/index.tsv against /repo HEAD and the listed checks, and
# (re)writes seeded/<id>/{patch.diff,demo_test.go,notes.md,run.json,meta.json}.  Uses the copies already in
# seeded/<id>/ when the source directory is gone.
cd ${VROOT:-/verif}
export VROOT=${VROOT:-/verif}
grep -v '^#' seeded/index.tsv | while IFS=$'\t' read -r id prop src L checks; do
  [ -z "$id" ] && continue
  if [ -n "${ONLY:-}" ] && [[ ! "$id" =~ $ONLY ]]; then continue; fi
  tmp=/tmp/seedsrc-$$; rm -rf $tmp; mkdir -p $tmp
  if [ -f seeded/$id/patch.diff ]; then cp seeded/$id/patch.diff $tmp/$L.diff; cp seeded/$id/demo_test.go $tmp/demo_${L}_test.go; cp seeded/$id/notes.md $tmp/$L.md 2>/dev/null
  else cp $src/$L.diff $src/demo_${L}_test.go $src/$L.md $tmp/ 2>/dev/null; fi
  echo "##### $id"
  tools/seed_verify.sh $tmp $L $id $checks | tail -$(( $(echo $checks | wc -w) + 1 ))
  python3 - "$id" "$prop" "$checks" <<'PY'
import json,sys,re
id,prop,checks=sys.argv[1],sys.argv[2],sys.argv[3].split()
d=__import__('os').environ.get('VROOT','/verif')+'/seeded/'+id
run=json.load(open(d+'/run.json'))
notes=open(d+'/notes.md').read() if __import__('os').path.exists(d+'/notes.md') else ''
caught=[c['check'] for c in run['checks'] if c['exit']==1]
meta={
 "id": id, "breaks_property": prop,
 "origin": "written by a fresh sub-agent that was given only the text of the property and its own scratch worktree of /repo (nothing from /verif)",
 "what_it_needs_to_manifest": notes.strip(),
 "confirmed": {"applies_to_repo_head": True, "compiles": True,
               "existing_suite_passes_with_change": run['suite_with_change_exit']==0,
               "demonstration_fails_with_change": run['demo_with_change_exit']!=0,
               "demonstration_passes_without_change": run['demo_without_change_exit']==0},
 "what_i_ran": ["tools/seed_verify.sh (scratch worktree of /repo HEAD: git apply patch.diff; go test -vet=off -count=1 ./...; go test -run TestDemo with and without the patch; then VERIF_REPO=<worktree> ./bin/check -p <check> -tier quick for each listed check)"],
 "checks_run": run['checks'], "caught_by": caught, "caught_by_own_property_check": prop in caught,
}
json.dump(meta,open(d+'/meta.json','w'),indent=1)
print("   caught_by:",caught)
PY
done
