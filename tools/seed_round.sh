#!/bin/bash
# usage: tools/seed_round.sh <round> <prop> [extra checks for A] -- [extra checks for B]
# Registers the two changes a sub-agent left in /tmp/seed<round>-<prop>-out in seeded/index.tsv (own check first)
# and verifies them with tools/seed_all.sh (scratch worktrees only).
cd /verif
r=$1; p=$2; shift 2
xa=""; xb=""; cur=a
for w in "$@"; do if [ "$w" = "--" ]; then cur=b; elif [ $cur = a ]; then xa="$xa $w"; else xb="$xb $w"; fi; done
src=/tmp/seed$r-$p-out
for L in A B; do
  [ -f $src/$L.diff ] && [ -s $src/$L.diff ] || { echo "no $L.diff in $src"; continue; }
  id=$p-$r$L
  x=$xa; [ $L = B ] && x=$xb
  grep -q "^$id	" seeded/index.tsv || printf '%s\t%s\t%s\t%s\t%s\n' "$id" "$p" "$src" "$L" "$p$x" >> seeded/index.tsv
done
ONLY="^$p-$r[AB]\$" tools/seed_all.sh
