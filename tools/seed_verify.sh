#!/bin/bash
# usage: tools/seed_verify.sh <outdir> <letter A|B> <id> <prop> [<prop>...]
# 1. confirms in a scratch worktree that the change compiles, the existing suite passes with it, and the
#    demonstration fails with it and passes without it; 2. runs the given checks against the changed tree;
# 3. stores the change under /verif/seeded/<id>/ (patch.diff, demo test, notes).  Nothing is applied to /repo.
set -u
out=$1; L=$2; id=$3; shift 3
export GOFLAGS=-mod=mod GOPROXY=off GOSUMDB=off GOTOOLCHAIN=local
wt=/tmp/sv-$$
git -C /repo worktree add -q --detach $wt HEAD || exit 2
res_demo_without=$( cd $wt && cp $out/demo_${L}_test.go . && go test -vet=off -count=1 -run "TestDemo${L}\$" . >/tmp/sv-$$.log 2>&1; echo $? ); rm -f $wt/demo_${L}_test.go
( cd $wt && git apply $out/$L.diff ) || { echo "PATCH DOES NOT APPLY"; git -C /repo worktree remove --force $wt; exit 3; }
res_suite=$( cd $wt && go test -vet=off -count=1 ./... >/tmp/sv-$$.suite 2>&1; echo $? )
res_demo_with=$( cd $wt && cp $out/demo_${L}_test.go . && go test -vet=off -count=1 -run "TestDemo${L}\$" . >/tmp/sv-$$.log2 2>&1; echo $? ); rm -f $wt/demo_${L}_test.go
echo "suite_with_change_exit=$res_suite demo_without_change_exit=$res_demo_without demo_with_change_exit=$res_demo_with"
cd ${VROOT:-/verif}
results=""
for p in "$@"; do
  o=$(VERIF_REPO=$wt VERIF_EVIDENCE_DIR=/tmp/sv-ev-$$ ./bin/check -p $p -tier ${TIER:-quick} 2>&1); rc=$?
  sigs=$(echo "$o" | grep -A1 '^VIOLATION' | grep signature | sed 's/ *signature: //' | sort -u | head -5 | tr '\n' ';')
  echo "== $p exit=$rc sigs: $sigs"
  results="$results{\"check\":\"$p\",\"tier\":\"${TIER:-quick}\",\"exit\":$rc,\"signatures\":\"$(echo $sigs | sed 's/"/\\"/g')\"},"
done
mkdir -p seeded/$id
cp $out/$L.diff seeded/$id/patch.diff; cp $out/demo_${L}_test.go seeded/$id/demo_test.go; cp $out/$L.md seeded/$id/notes.md 2>/dev/null
echo "{\"suite_with_change_exit\":$res_suite,\"demo_without_change_exit\":$res_demo_without,\"demo_with_change_exit\":$res_demo_with,\"checks\":[${results%,}]}" > seeded/$id/run.json
git -C /repo worktree remove --force $wt; git -C /repo worktree prune; rm -rf /tmp/sv-ev-$$ /tmp/sv-$$.*
