#!/bin/bash
# multi-seed silence sweep of all quick checks
cd /verif
for s in 11 12 13 14 15 16 17 18; do
  for p in C01 C02 C03 C04 C05 C06 C07 C08 C09 C10 C11 C12 C13 C14 C15 C16 C17 C18 C19; do
    out=$(VERIF_SEED=$s VERIF_EVIDENCE_DIR=/tmp/sweep-ev ./bin/check -p $p 2>&1); rc=$?
    echo "seed=$s $p exit=$rc $(echo "$out" | grep -c '^VIOLATION') $(echo "$out" | grep '^INCONCLUSIVE' | head -1) $(echo "$out" | grep -A1 '^VIOLATION' | grep signature | head -3 | tr '\n' ' ')"
  done
done
