#!/bin/bash
# Runs the thorough command of every check (or of the checks named on the command line) once (seed from
# VERIF_SEED, default 1); evidence goes to a scratch directory so that the committed quick-tier evidence
# files are not touched.  Meant for `vp run -- bash tools/thorough.sh [C07 C17 ...]`.
export GOFLAGS=-mod=mod GOPROXY=off GOSUMDB=off GOTOOLCHAIN=local
go build -o bin/check ./cmd/check || exit 2
ev=$(mktemp -d)
rc_all=0
list="$@"
[ -z "$list" ] && list="C01 C02 C03 C04 C05 C06 C07 C08 C09 C10 C11 C12 C13 C14 C15 C16 C17 C18 C19"
for p in $list; do
  out=$(VERIF_EVIDENCE_DIR=$ev ./bin/check -p $p -tier thorough 2>&1); rc=$?
  echo "$p exit=$rc $(echo "$out" | tail -1)"
  [ $rc -ne 0 ] && { rc_all=1; echo "$out" | grep -A4 '^VIOLATION\|^INCONCLUSIVE' | cut -c1-600 | head -40; }
done
rm -rf $ev
exit $rc_all
