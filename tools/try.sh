#!/bin/bash
# usage: tools/try.sh (revert <commit> | patch <file>) <prop> [<prop>...]   [TIER=quick]
# Applies a revert/patch to a scratch worktree of /repo HEAD (never to /repo), runs the given
# checks against it (VERIF_REPO), prints their verdict lines and removes the worktree.
set -u
mode=$1; arg=$2; shift 2
wt=/tmp/vt-$$
git -C /repo worktree add -q --detach $wt HEAD || exit 2
if [ "$mode" = revert ]; then (cd $wt && git revert --no-commit $arg >/dev/null 2>&1) || echo "REVERT FAILED"
else (cd $wt && git apply $arg) || echo "PATCH FAILED"; fi
( cd $wt && GOFLAGS=-mod=mod GOPROXY=off GOSUMDB=off go build ./... ) || echo "BUILD FAILED"
cd /verif
for p in "$@"; do
  out=$(VERIF_REPO=$wt VERIF_EVIDENCE_DIR=/tmp/vt-ev-$$ ./bin/check -p $p -tier ${TIER:-quick} 2>&1)
  echo "== $p exit=$? $(echo "$out" | grep -c '^VIOLATION') violation line(s)"
  echo "$out" | grep -A1 '^VIOLATION' | grep signature | sort | uniq -c | head -8
  echo "$out" | tail -1
done
git -C /repo worktree remove --force $wt; git -C /repo worktree prune; rm -rf /tmp/vt-ev-$$
