#!/usr/bin/env python3
"""Regenerates MANIFEST.json from the table below (kept in one place so the
manifest is always valid and consistent)."""
import json, subprocess, sys

CLAIMED = {}   # id -> dict(level, text, note, technique, design)
NOT_APPLICABLE = {}

def claim(pid, level, text, note, technique, design):
    CLAIMED[pid] = dict(level=level, text=text, note=note, technique=technique, design=design)

exec(open('/verif/manifest_table.py').read())

all_ids = [json.loads(l)['id'] for l in open('/verif/properties.jsonl')]
checks = []
for pid in all_ids:
    if pid in CLAIMED:
        c = CLAIMED[pid]
        checks.append({
            "property_id": pid,
            "quick_cmd": f"./bin/check -p {pid} -tier quick",
            "thorough_cmd": f"./bin/check -p {pid} -tier thorough",
            "evidence_file": f"/verif/evidence/{pid}.json",
            "replay_cmd_template": "./bin/check -replay {path}",
            "engine": "check",
            "level_claimed": {"category": c['level'], "text": c['text'], "design_ref": c['design']},
            "level_note": c['note'],
            "technique": c['technique'],
        })
na = []
for pid in all_ids:
    if pid not in CLAIMED:
        na.append({"property_id": pid, "reason": NOT_APPLICABLE.get(pid, "check not built yet in this session; no claim is made")})
hooks_commits = subprocess.run(['git','-C','/repo','log','--format=%H','--grep=^verif:'],capture_output=True,text=True).stdout.split()
m = {
 "version": 1,
 "setup_cmd": "cd /verif && mkdir -p bin && GOFLAGS=-mod=mod GOPROXY=off GOSUMDB=off GOTOOLCHAIN=local go build -o bin/check ./cmd/check",
 "hooks": {
   "guard": "verif",
   "enable": "go build -tags verif (Go build tag; the orchestrator rebuilds cmd/prop against /repo's working tree with -tags verif, plus -race for C05/C18)",
   "baseline_off_cmd": "cd /repo && GOFLAGS=-mod=mod GOPROXY=off GOSUMDB=off go test -json -vet=off -count=1 -timeout 25m ./...",
   "source_commits": hooks_commits,
   "add_only": True
 },
 "engines": [
   {"name": "check", "path": "/verif/cmd/check", "serves_properties": sorted(CLAIMED),
    "kind_free_text": "runtime monitoring: orchestrator that rebuilds the instrumented runner (cmd/prop) from /repo, runs value-determined case lists in child processes under a watchdog, and merges what the monitors (instrumented StoreFile, reference model, independent decoder, tree/free-list walk hooks, ref-count callbacks, deterministic scheduler, race detector filter, porcupine) observed"}
 ],
 "checks": checks,
 "not_applicable": na,
 "notes": "All checks decide by observing executions of the real code (runtime monitoring family). Exit 0 = held on everything explored; 1 + VIOLATION line = violation; 3 + INCONCLUSIVE line = the run cannot support a verdict (build failure, coverage floor unmet). known_findings.jsonl lists recorded/fixed defects."
}
json.dump(m, open('/verif/MANIFEST.json','w'), indent=1)
print("claimed", sorted(CLAIMED), "na", [x['property_id'] for x in na])
